//go:build verif

package attachment

func init() {
	vrtHarnesses["VerifC10Attachment"] = VerifC10Attachment
}

// VerifC10Attachment: the attachment server's per-connection code (connection.run, the stream /
// control-frame classifier, both chunk-header parsers, the standard data handler and the default
// file handler) on hostile input with the peer disconnecting (EOF or reset) after any number of
// reads, including none. There is no recover in the server: a panic here terminates the process.
func VerifC10Attachment() {
	vrtFS = nil
	d := vDialects[vrt_Choose("dialect", 2)] // JS and HLJ: the two chunk-header layouts
	if vrt_Tier() > 0 {
		d = vDialects[vrt_Choose("dialectT", len(vDialects))]
	}
	nReads := vrt_Choose("reads", 3)
	conn := &vConn{errAt: -1}
	phone := vrt_Bytes("phone", 6)
	vNoEsc(phone)
	vrt_Assume(phone[0]>>4 != 0)
	for r := 0; r < nReads; r++ {
		kind := vrt_Choose("chunkKind", 4)
		if r > 0 {
			// a control frame, an announcement or half a frame (arbitrary bytes only as the first read)
			kind = 1 + vrt_Choose("secondKind", 3)
		}
		if kind == 0 && nReads == 2 {
			return // arbitrary bytes are explored as the only read
		}
		switch kind {
		case 0: // arbitrary bytes
			maxL := 6
			if vrt_Tier() > 0 {
				maxL = 8
			}
			conn.reads = append(conn.reads, vrt_Bytes("raw", 1+vrt_Choose("rawLen", maxL)))
		case 1: // control frame with a short arbitrary body (any of the three IDs or another one)
			id := []uint16{0x1210, 0x1211, 0x1212, 0x0200}[vrt_Choose("ctlID", 4)]
			body := vrt_Bytes("ctlBody", []int{0, 1, 6, 7}[vrt_Choose("ctlLen", 4)])
			vNoEsc(body)
			fr := vCtl(id, phone, 1, body)
			vAssumeNoEscape(fr)
			conn.reads = append(conn.reads, fr)
		case 2: // a well-formed 0x1210 announcing one file with a symbolic name and size
			nm := vrt_Bytes("name", 1+vrt_Choose("nameLen", 2))
			vNoEsc(nm)
			size := vrt_Bytes("size", 4)
			vNoEsc(size)
			fill := func(label string, k int) []byte {
				b := make([]byte, k)
				for i := range b {
					b[i] = 'A'
				}
				return b
			}
			body := v1210Body(d, []vFile{{name: string(nm), data: nil}}, fill)
			copy(body[len(body)-4:], size)
			fr := vCtl(0x1210, phone, 1, body)
			vAssumeNoEscape(fr)
			conn.reads = append(conn.reads, fr)
		case 3: // a chunk header with adversarial name, offset and length fields, and a short payload
			hdr := vrt_Bytes("chunkHeader", 8)
			nm := vrt_Bytes("chunkName", 2)
			u := vChunk(d, vFile{name: string(nm), data: []byte{1, 2}}, 0, 2)
			copy(u[len(u)-2-8:len(u)-2], hdr) // offset and length fields
			cut := vrt_Choose("truncate", 3)
			conn.reads = append(conn.reads, u[:len(u)-cut])
		}
	}
	if vrt_Choose("disconnect", 2) == 1 {
		conn.errAt = nReads
	}
	c := newConnection(conn, d, nil, &fileEvent{})
	c.run()
	vrt_Cover("connect-and-close", nReads == 0)
	vrt_Cover("reset", conn.errAt >= 0)
	vrt_Cover("two-reads", nReads == 2)
}
