//go:build verif

package attachment

import (
	"github.com/cuteLittleDevil/go-jt808/protocol/jt808"
	"io"
	"net"
	"time"

	"github.com/cuteLittleDevil/go-jt808/shared/consts"
)

// vConn is a scripted net.Conn (plain Go: the engine executes it like any other code).
type vConn struct {
	reads  [][]byte
	errAt  int // index at which Read returns a non-EOF error (-1: never)
	pos    int
	writes [][]byte
	closed bool
}

type vErr struct{}

func (vErr) Error() string { return "connection reset by peer" }

func (c *vConn) Read(b []byte) (int, error) {
	if c.errAt >= 0 && c.pos == c.errAt {
		return 0, vErr{}
	}
	if c.pos >= len(c.reads) {
		return 0, io.EOF
	}
	n := copy(b, c.reads[c.pos])
	c.pos++
	return n, nil
}
func (c *vConn) Write(b []byte) (int, error) {
	c.writes = append(c.writes, append([]byte{}, b...))
	return len(b), nil
}
func (c *vConn) Close() error                       { c.closed = true; return nil }
func (c *vConn) LocalAddr() net.Addr                { return nil }
func (c *vConn) RemoteAddr() net.Addr               { return nil }
func (c *vConn) SetDeadline(t time.Time) error      { return nil }
func (c *vConn) SetReadDeadline(t time.Time) error  { return nil }
func (c *vConn) SetWriteDeadline(t time.Time) error { return nil }

// vEvents records a snapshot of the progress at every file event.
type vEvent struct {
	stage    ProgressStage
	complete map[string][]byte // name -> StreamBody for records whose stream data is complete
	err      error
}

type vEvents struct {
	events []vEvent
}

func (v *vEvents) OnEvent(p *PackageProgress) {
	e := vEvent{stage: p.ProgressStage, complete: map[string][]byte{}, err: p.ExtensionFields.Err}
	if p.ProgressStage == ProgressStageStreamDataComplete && p.ExtensionFields.CurrentPackage != nil {
		cp := p.ExtensionFields.CurrentPackage
		e.complete[cp.FileName] = append([]byte{}, cp.StreamBody...)
	}
	v.events = append(v.events, e)
}

var vDialects = []consts.ActiveSafetyType{consts.ActiveSafetyJS, consts.ActiveSafetyHLJ, consts.ActiveSafetyGD, consts.ActiveSafetyHN, consts.ActiveSafetySC}

func vTermIDLen(d consts.ActiveSafetyType) int {
	switch d {
	case consts.ActiveSafetyHLJ, consts.ActiveSafetyGD, consts.ActiveSafetySC:
		return 30
	}
	return 7
}

func vAlarmSignLen(d consts.ActiveSafetyType) int {
	switch d {
	case consts.ActiveSafetyHLJ:
		return 38
	case consts.ActiveSafetyGD:
		return 40
	case consts.ActiveSafetyHN:
		return 32
	case consts.ActiveSafetySC:
		return 39
	}
	return 16
}

type vFile struct {
	name string
	data []byte
}

// v1210Body: the 0x1210 body announcing the files (layout per dialect; identifiers symbolic, NUL-free).
func v1210Body(d consts.ActiveSafetyType, files []vFile, fill func(label string, n int) []byte) []byte {
	var b []byte
	if d != consts.ActiveSafetyHLJ {
		b = append(b, fill("termID", vTermIDLen(d))...)
	}
	b = append(b, fill("alarmSign", vAlarmSignLen(d))...)
	b = append(b, fill("alarmID", 32)...)
	b = append(b, 0, byte(len(files)))
	for _, f := range files {
		b = append(b, byte(len(f.name)))
		b = append(b, f.name...)
		n := len(f.data)
		b = append(b, byte(n>>24), byte(n>>16), byte(n>>8), byte(n))
	}
	return b
}

func v1211Body(f vFile) []byte {
	b := []byte{byte(len(f.name))}
	b = append(b, f.name...)
	n := len(f.data)
	return append(b, 0, byte(n>>24), byte(n>>16), byte(n>>8), byte(n))
}

// vChunk: a stream-data unit for file f, bytes [off, off+n).
func vChunk(d consts.ActiveSafetyType, f vFile, off, n int) []byte {
	b := []byte{0x30, 0x31, 0x63, 0x64}
	if d == consts.ActiveSafetyHLJ {
		b = append(b, byte(len(f.name)))
		b = append(b, f.name...)
	} else {
		name := make([]byte, 50)
		copy(name, f.name)
		b = append(b, name...)
	}
	b = append(b, byte(off>>24), byte(off>>16), byte(off>>8), byte(off), byte(n>>24), byte(n>>16), byte(n>>8), byte(n))
	return append(b, f.data[off:off+n]...)
}

func vCtl(id uint16, phone []byte, serial uint16, body []byte) []byte {
	f := &vFrame{id: id, phone: phone, serial: serial, body: body}
	return f.bytes()
}

func vNoEsc(bs ...[]byte) {
	vrtKSpecial("noesc", 0, vrtEscSpecial, bs...)
}

// vAssumeNoEscape: none of the frame's payload bytes needed escaping (keeps frame lengths fixed).
func vAssumeNoEscape(frame []byte) {
	for i := 1; i < len(frame)-1; i++ {
		vrt_Assume(frame[i] != 0x7d)
	}
}

// vUnframe: reference decoding of a platform frame (2013 layout, no sub-package fields).
func vUnframe(fr []byte) (ok bool, id uint16, body []byte) {
	if len(fr) < 15 || fr[0] != 0x7e || fr[len(fr)-1] != 0x7e {
		return false, 0, nil
	}
	var p []byte
	for i := 1; i < len(fr)-1; i++ {
		if fr[i] == 0x7d && i+1 < len(fr)-1 {
			i++
			if fr[i] == 0x02 {
				p = append(p, 0x7e)
			} else {
				p = append(p, 0x7d)
			}
		} else {
			p = append(p, fr[i])
		}
	}
	var x byte
	for _, b := range p {
		x ^= b
	}
	prop := uint16(p[2])<<8 | uint16(p[3])
	if x != 0 || len(p) < 13 || int(prop&0x3ff) != len(p)-13 {
		return false, 0, nil
	}
	return true, uint16(p[0])<<8 | uint16(p[1]), p[12 : len(p)-1]
}

func vMsg(body []byte) *jt808.JTMessage {
	return &jt808.JTMessage{Header: &jt808.Header{Property: &jt808.BodyProperty{}}, Body: body}
}

// ---- file-system calls of the default file handler: recorded, never executed ----
// (the engine records os.MkdirAll / os.WriteFile itself; for native replay the check rewrites the
// two calls in file_event.go to the functions below)

type vrtFSRec struct{ op, path string }

var vrtFS []vrtFSRec

func vrtMkdirAll(path string, perm interface{}) error {
	vrtFS = append(vrtFS, vrtFSRec{"MkdirAll", path})
	return nil
}

func vrtWriteFile(path string, data []byte, perm interface{}) error {
	vrtFS = append(vrtFS, vrtFSRec{"WriteFile", path})
	return nil
}

// vrt_FSLog(i): operation and path of the i-th recorded file-system call ("" beyond the end).
func vrt_FSLog(i int) (string, string) {
	if i < 0 || i >= len(vrtFS) {
		return "", ""
	}
	return vrtFS[i].op, vrtFS[i].path
}
