//go:build verif

package attachment

import (
	"path/filepath"
	"strings"

	"github.com/cuteLittleDevil/go-jt808/shared/consts"
)

func init() {
	vrtHarnesses["VerifC19Confined"] = VerifC19Confined
}

// VerifC19Confined: a session that announces one file with an arbitrary name and then ends; every
// file the default handler writes must lie lexically inside the directory named after the phone.
// Containment is computed by the real path/filepath code, executed symbolically on the name.
func VerifC19Confined() {
	vrtFS = nil
	maxLen := 4
	if vrt_Tier() > 0 {
		maxLen = 6
	}
	phone := vrt_Bytes("phone", 6)
	var nameB []byte
	n := 0
	if vrt_Choose("nameFamily", 2) == 0 {
		// dense: every byte of a short name free
		n = 1 + vrt_Choose("nameLen", maxLen)
		nameB = vrt_Bytes("name", n)
	} else {
		// structured: names built around the terminal's own directory name (sibling directories that
		// share the phone as a prefix, paths that leave and re-enter), with symbolic separators
		digits := make([]byte, 0, 12)
		for _, b := range phone {
			digits = append(digits, '0'+b>>4, '0'+b&0x0f)
		}
		pre := []string{"../", "./../", "../../", "/"}[vrt_Choose("prefix", 4)]
		nameB = append([]byte(pre), digits...)
		nameB = append(nameB, vrt_Bytes("suffix", vrt_Choose("suffixLen", 3))...)
		if vrt_Choose("tail", 2) == 1 {
			nameB = append(nameB, '/', 'x')
		}
		n = len(nameB)
	}
	vNoEsc(nameB)
	vNoEsc(phone)
	// a phone that renders as 12 decimal digits
	for _, b := range phone {
		vrt_Assume(b>>4 <= 9 && b&0x0f <= 9)
	}
	vrt_Assume(phone[0]>>4 != 0)
	f := vFile{name: string(nameB), data: []byte{1}}
	d := consts.ActiveSafetyJS
	fill := func(label string, k int) []byte {
		b := make([]byte, k)
		for i := range b {
			b[i] = 'A'
		}
		return b
	}
	frame := vCtl(0x1210, phone, 1, v1210Body(d, []vFile{f}, fill))
	vAssumeNoEscape(frame)
	reads := [][]byte{frame}
	// the session either ends after the announcement, or uploads the whole file and signals its
	// end (0x1211, the chunk, 0x1212) before it ends: every event the handler sees is covered
	full := len(nameB) <= 50 && vrt_Choose("fullUpload", 2) == 1
	if full {
		f1211 := vCtl(0x1211, phone, 2, v1211Body(f))
		vAssumeNoEscape(f1211)
		f1212 := vCtl(0x1212, phone, 3, v1211Body(f))
		vAssumeNoEscape(f1212)
		reads = append(reads, f1211, vChunk(d, f, 0, 1), f1212)
	}
	vrt_Cover("full-upload", full)
	conn := &vConn{reads: reads, errAt: -1}
	c := newConnection(conn, d, nil, &fileEvent{})
	c.run()
	phoneStr := ""
	{
		digits := make([]byte, 0, 12)
		for _, b := range phone {
			digits = append(digits, '0'+b>>4, '0'+b&0x0f)
		}
		phoneStr = string(digits)
	}
	writes := 0
	for i := 0; ; i++ {
		op, path := vrt_FSLog(i)
		if op == "" {
			break
		}
		if op != "WriteFile" {
			continue
		}
		writes++
		rel, err := filepath.Rel(filepath.Clean(phoneStr), filepath.Clean(path))
		inside := err == nil && rel != ".." && !strings.HasPrefix(rel, "../") && !filepath.IsAbs(rel)
		vrt_Class("kfC19Traversal", true)
		vrt_Assert(inside, "a file was written outside the terminal's directory")
	}
	vrt_Cover("wrote-a-file", writes >= 1)
	vrt_Cover("name-with-slash", nameB[0] == '/' || (n > 1 && nameB[1] == '/'))
}
