//go:build verif

package attachment

import (
	"github.com/cuteLittleDevil/go-jt808/shared/consts"
)

func init() {
	vrtHarnesses["VerifC15Upload"] = VerifC15Upload
	vrtHarnesses["VerifC15Marker"] = VerifC15Marker
}

type c15Unit struct {
	data   []byte
	isCtl  bool
	ctlID  uint16
	serial uint16
	file   int // chunk: index of the file
	off, n int
}

// c15Session builds the units of one upload session: 0x1210, then per file 0x1211, its chunks in the
// chosen order (optionally one resent), 0x1212.
func c15Session(d consts.ActiveSafetyType, files []vFile, phone []byte, cuts [][]int, order []int, resend int, rechunk bool) []c15Unit {
	fill := func(label string, k int) []byte {
		b := vrt_Bytes(label, k)
		vNoEsc(b)
		for _, x := range b {
			vrt_Assume(x != 0)
		}
		return b
	}
	var us []c15Unit
	serial := uint16(1)
	ctl := func(id uint16, body []byte) {
		fr := vCtl(id, phone, serial, body)
		vAssumeNoEscape(fr)
		us = append(us, c15Unit{data: fr, isCtl: true, ctlID: id, serial: serial})
		serial++
	}
	ctl(0x1210, v1210Body(d, files, fill))
	for fi, f := range files {
		ctl(0x1211, v1211Body(f))
		// chunk boundaries for this file
		bounds := append([]int{0}, cuts[fi]...)
		bounds = append(bounds, len(f.data))
		type ch struct{ off, n int }
		var chunks []ch
		for i := 0; i+1 < len(bounds); i++ {
			if bounds[i+1] > bounds[i] {
				chunks = append(chunks, ch{bounds[i], bounds[i+1] - bounds[i]})
			}
		}
		idx := make([]int, len(chunks))
		for i := range idx {
			idx[i] = i
		}
		if len(chunks) == 2 && order[fi] == 1 {
			idx[0], idx[1] = 1, 0
		}
		for k, ci := range idx {
			c := chunks[ci]
			us = append(us, c15Unit{data: vChunk(d, f, c.off, c.n), file: fi, off: c.off, n: c.n})
			if resend == fi+1 && k == 0 {
				if rechunk && c.n >= 2 {
					// the same bytes again, cut differently: first byte, then the rest
					us = append(us, c15Unit{data: vChunk(d, f, c.off, 1), file: fi, off: c.off, n: 1})
					us = append(us, c15Unit{data: vChunk(d, f, c.off+1, c.n-1), file: fi, off: c.off + 1, n: c.n - 1})
				} else {
					us = append(us, c15Unit{data: vChunk(d, f, c.off, c.n), file: fi, off: c.off, n: c.n})
				}
			}
		}
		ctl(0x1212, v1211Body(f))
	}
	return us
}

// VerifC15Upload: files announced by a terminal, split into chunks, sent in any order (optionally
// one chunk resent), under several segmentations of the byte stream; a file is reported complete
// only when every byte has arrived and then its content is byte-identical; each control frame is
// answered exactly once with the prescribed reply.
func VerifC15Upload() {
	d := vDialects[vrt_Choose("dialect", len(vDialects))]
	nFiles := 1
	maxSize := 3
	if vrt_Tier() > 0 {
		maxSize = 4 // (two files in one session: VerifC16Resupply; here they do not finish within the budget)
	}
	phone := vrt_Bytes("phone", 6)
	vNoEsc(phone)
	vrt_Assume(phone[0]>>4 != 0)
	var files []vFile
	var cuts [][]int
	var order []int
	for i := 0; i < nFiles; i++ {
		size := 1 + vrt_Choose("size", maxSize)
		nm := vrt_Bytes("name", 2)
		vNoEsc(nm)
		vrt_Assume(nm[0] != 0 && nm[1] != 0)
		if i == 1 {
			vrt_Assume(nm[0] != files[0].name[0])
		}
		files = append(files, vFile{name: string(nm), data: vrt_Bytes("content", size)})
		cuts = append(cuts, []int{vrt_Choose("cut", size)}) // 0 = single chunk
		order = append(order, vrt_Choose("order", 2))
	}
	resend := vrt_Choose("resend", nFiles+1) // 0 none, k: first sent chunk of file k sent twice
	rechunk := resend != 0 && vrt_Choose("rechunk", 2) == 1
	us := c15Session(d, files, phone, cuts, order, resend, rechunk)
	// segmentation: 0 = every unit in its own read, 1 = adjacent pairs coalesced, 2 = one unit cut in two
	seg := vrt_Choose("segmentation", 3)
	var reads [][]byte
	switch seg {
	case 0:
		for _, u := range us {
			reads = append(reads, u.data)
		}
	case 1:
		for i := 0; i < len(us); i += 2 {
			b := append([]byte{}, us[i].data...)
			if i+1 < len(us) {
				b = append(b, us[i+1].data...)
			}
			reads = append(reads, b)
		}
	case 2:
		k := vrt_Choose("cutUnit", len(us))
		for i, u := range us {
			if i == k && len(u.data) > 1 {
				at := 1
				if vrt_Tier() > 1 {
					at = 1 + vrt_Choose("cutAtT", len(u.data)-1)
				} else {
					// quick: after the first byte, inside the marker / header, in the middle, before the last byte
					cand := []int{1, 3, len(u.data) / 2, len(u.data) - 1}
					at = cand[vrt_Choose("cutAt", len(cand))]
					if at < 1 || at >= len(u.data) {
						at = 1
					}
				}
				reads = append(reads, u.data[:at], u.data[at:])
			} else {
				reads = append(reads, u.data)
			}
		}
	}
	vrt_Class("kfC15Coalesced", seg == 1)
	vrt_Class("kfC15Resend", resend != 0)
	conn := &vConn{reads: reads, errAt: -1}
	ev := &vEvents{}
	c := newConnection(conn, d, nil, ev)
	c.run()
	// session must not end with an error
	last := ev.events[len(ev.events)-1]
	vrt_Assert(last.stage == ProgressStageSuccessQuit, "a well-formed upload session ended with an error")
	// each file: complete exactly once, with the original bytes
	for _, f := range files {
		n := 0
		for _, e := range ev.events {
			if body, ok := e.complete[f.name]; ok {
				n++
				vrt_Assert(vrt_BytesEq(body, f.data), "file reported complete with content that differs from the original")
			}
		}
		vrt_Assert(n >= 1, "file never reported complete although every byte arrived")
	}
	// replies: one per control frame, in order: 0x8001 echoing serial/ID, 0x9212 for 0x1212
	nCtl := 0
	for _, u := range us {
		if u.isCtl {
			nCtl++
		}
	}
	vrt_Assert(len(conn.writes) == nCtl, "number of replies differs from the number of control frames")
	wi := 0
	for _, u := range us {
		if !u.isCtl {
			continue
		}
		ok, rid, body := vUnframe(conn.writes[wi])
		wi++
		vrt_Assert(ok, "reply is not a well-formed frame")
		if u.ctlID == 0x1212 {
			vrt_Assert(rid == 0x9212, "0x1212 not answered with 0x9212")
			vrt_Assert(len(body) >= 2 && body[len(body)-2] == 0 && body[len(body)-1] == 0, "complete file not acknowledged as complete")
		} else {
			vrt_Assert(rid == 0x8001 && len(body) == 5 && uint16(body[0])<<8|uint16(body[1]) == u.serial && uint16(body[2])<<8|uint16(body[3]) == u.ctlID && body[4] == 0, "control frame not answered with the general response echoing its serial and ID")
		}
	}
	vrt_Cover("two-chunks-reversed", cuts[0][0] > 0 && order[0] == 1)
	vrt_Cover("resent-chunk", resend != 0)
	vrt_Cover("resent-rechunked", rechunk)
	vrt_Cover("coalesced", seg == 1)
	vrt_Cover("unit-cut-in-two", seg == 2)
}

// VerifC15Marker: control frames are recognised as such even when their content contains the chunk
// marker bytes 30 31 63 64 (here: in the alarm ID and in the phone number).
func VerifC15Marker() {
	d := consts.ActiveSafetyJS
	where := vrt_Choose("where", 2)
	phone := vrt_Bytes("phone", 6)
	vNoEsc(phone)
	vrt_Assume(phone[0]>>4 != 0)
	if where == 1 {
		vrt_Assume(phone[1] == 0x30 && phone[2] == 0x31 && phone[3] == 0x63 && phone[4] == 0x64)
	}
	f := vFile{name: "ab", data: vrt_Bytes("content", 2)}
	fill := func(label string, k int) []byte {
		b := vrt_Bytes(label, k)
		vNoEsc(b)
		for _, x := range b {
			vrt_Assume(x != 0)
		}
		if label == "alarmID" && where == 0 {
			vrt_Assume(b[3] == 0x30 && b[4] == 0x31 && b[5] == 0x63 && b[6] == 0x64)
		}
		return b
	}
	f1210 := vCtl(0x1210, phone, 1, v1210Body(d, []vFile{f}, fill))
	vAssumeNoEscape(f1210)
	f1211 := vCtl(0x1211, phone, 2, v1211Body(f))
	vAssumeNoEscape(f1211)
	f1212 := vCtl(0x1212, phone, 3, v1211Body(f))
	vAssumeNoEscape(f1212)
	vrt_Class("kfC15Marker", true)
	conn := &vConn{reads: [][]byte{f1210, f1211, vChunk(d, f, 0, 2), f1212}, errAt: -1}
	ev := &vEvents{}
	newConnection(conn, d, nil, ev).run()
	last := ev.events[len(ev.events)-1]
	vrt_Assert(last.stage == ProgressStageSuccessQuit, "session aborted: a control frame containing the marker bytes was not recognised")
	vrt_Assert(len(conn.writes) == 3, "control frames containing the marker bytes were not all answered")
	vrt_Cover("marker-in-alarm-id", where == 0)
	vrt_Cover("marker-in-phone", where == 1)
}
