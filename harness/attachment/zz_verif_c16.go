//go:build verif

package attachment

import "github.com/cuteLittleDevil/go-jt808/protocol/model"

func init() {
	vrtHarnesses["VerifC16Ranges"] = VerifC16Ranges
	vrtHarnesses["VerifC16Wire"] = VerifC16Wire
	vrtHarnesses["VerifC16ManyGaps"] = VerifC16ManyGaps
}

type c16Chunk struct{ off, n uint32 }

// c16State: a file of symbolic size with m received chunks, pairwise disjoint, non-empty, inside the
// file (the representation invariant of a transfer without resends), inserted in the given order.
func c16State(m int) (*Package, []c16Chunk, uint32) {
	size := vrt_U32("fileSize")
	vrt_Assume(size >= 1 && size <= c16MaxSize())
	p := &Package{FileName: "f", FileSize: size, OffsetRecord: map[int]int{}, OffsetDataRecord: map[int][]byte{}}
	var cs []c16Chunk
	var total uint32
	for i := 0; i < m; i++ {
		c := c16Chunk{vrt_U32("off"), vrt_U32("len")}
		vrt_Assume(c.n >= 1 && c.off < size && c.n <= size-c.off)
		for _, o := range cs {
			vrt_Assume(c.off+c.n <= o.off || o.off+o.n <= c.off)
		}
		cs = append(cs, c)
		p.OffsetRecord[int(c.off)] = int(c.n)
		total += c.n
	}
	p.CurrentSize = total
	return p, cs, size
}

func c16In(x uint32, off, n uint32) bool { return x >= off && x-off < n }

// VerifC16Ranges: StatisticalMissSegments from an arbitrary valid state against the specification
// "exactly the maximal missing ranges, ascending", stated over a free byte position x.
func VerifC16Ranges() {
	maxM := 3
	if vrt_Tier() > 0 {
		maxM = 4
	}
	m := vrt_Choose("chunks", maxM+1)
	p, cs, size := c16State(m)
	segs := p.StatisticalMissSegments()
	covered := p.CurrentSize == size
	if covered {
		vrt_Assert(len(segs) == 0, "complete file reported with missing ranges")
		vrt_Cover("complete", true)
		return
	}
	vrt_Assert(len(segs) > 0, "incomplete file reported without missing ranges")
	x := vrt_U32("x")
	vrt_Assume(x < size)
	inChunk := false
	for _, c := range cs {
		inChunk = vrt_Or(inChunk, c16In(x, c.off, c.n))
	}
	inSeg := false
	for _, s := range segs {
		inSeg = vrt_Or(inSeg, c16In(x, s.DataOffset, s.DataLength))
	}
	vrt_Assert(inSeg == !inChunk, "a byte is reported missing although received, or omitted although missing")
	for i, s := range segs {
		vrt_Assert(s.DataLength >= 1 && s.DataOffset < size && s.DataLength <= size-s.DataOffset, "reported range empty or outside the file")
		if i > 0 {
			prev := segs[i-1]
			vrt_Assert(prev.DataOffset+prev.DataLength < s.DataOffset, "reported ranges not ascending and maximal (adjacent or overlapping)")
		}
	}
	vrt_Cover("gap-at-start", segs[0].DataOffset == 0)
	vrt_Cover("two-gaps", len(segs) >= 2)
	vrt_Cover("single-byte-gap", segs[0].DataLength == 1)
}

// VerifC16Wire: the same states through the 0x1212 handling of the standard data handler:
// OnPackageProgressEvent stages the ranges, T0x1212.ReplyBody -> P0x9212.Encode puts result byte,
// count and (offset, length) pairs on the wire, and P0x9212.Parse (the inverse terminals use) reads
// the same list back. (The frame around the body is C15's subject, with concrete sizes.)
func VerifC16Wire() {
	m := vrt_Choose("chunks", 3)
	p, _, size := c16State(m)
	h := newStandardJT808DataHandle(vDialects[0])
	name := "f"
	body := v1211Body(vFile{name: name, data: nil})
	body[len(body)-4], body[len(body)-3], body[len(body)-2], body[len(body)-1] = byte(size>>24), byte(size>>16), byte(size>>8), byte(size)
	progress := &PackageProgress{Record: map[string]*Package{name: p}, handle: h}
	msg := vMsg(body)
	msg.Header.ID = 0x1212
	vrt_Assert(h.Parse(msg) == nil, "0x1212 body not accepted")
	h.OnPackageProgressEvent(progress)
	rbody, err := h.T0x1212.ReplyBody(msg)
	vrt_Assert(err == nil, "no 0x9212 body")
	want := p.StatisticalMissSegments()
	vrt_Assert(len(rbody) == 1+len(name)+3+8*len(want), "0x9212 body length differs")
	res, cnt := rbody[1+len(name)+1], rbody[1+len(name)+2]
	if len(want) == 0 {
		vrt_Assert(res == 0 && cnt == 0, "complete file must be answered with result 0 and no ranges")
		vrt_Cover("wire-complete", true)
		return
	}
	vrt_Assert(res == 1 && int(cnt) == len(want), "incomplete file must be answered with result 1 and the range count")
	vrt_Assert(progress.ProgressStage == ProgressStageSupplementary, "stage must be 'supplementary' when ranges are missing")
	for i, s := range want {
		o := rbody[1+len(name)+3+8*i:]
		off := uint32(o[0])<<24 | uint32(o[1])<<16 | uint32(o[2])<<8 | uint32(o[3])
		ln := uint32(o[4])<<24 | uint32(o[5])<<16 | uint32(o[6])<<8 | uint32(o[7])
		vrt_Assert(off == s.DataOffset && ln == s.DataLength, "range in the 0x9212 body differs")
	}
	var back model.P0x9212
	vrt_Assert(back.Parse(vMsg(rbody)) == nil, "terminal-side parser rejects the 0x9212 body")
	vrt_Assert(vrt_DeepEqual(back.P0x9212RetransmitPacketList, want), "terminal-side parser reads different ranges")
	vrt_Cover("wire-ranges", len(want) >= 2)
}

// VerifC16ManyGaps: the property quantifies over up to 255 gaps; the symbolic harnesses stop at 4
// chunks. Here the layout is concrete (every other byte received, so g single-byte gaps) and the
// count and the file-name length are large: g in {2, 25, 26, 31, 64, 128, 255}, names of 1, 13 and
// 49 characters, chunks inserted in ascending or descending order (all concrete: this
// harness is concrete execution of the real code, not a solver claim). The 0x9212 body must carry exactly the g ranges (2i, 1) in ascending order, and the
// terminal-side parser must read the same list back.
func VerifC16ManyGaps() {
	g := []int{2, 25, 26, 31, 64, 128, 255}[vrt_Choose("gaps", 7)]
	nameLen := []int{1, 13, 49}[vrt_Choose("nameLen", 3)]
	desc := vrt_Choose("descending", 2) == 1
	nb := make([]byte, nameLen)
	for i := range nb {
		nb[i] = 'a' + byte(i%26)
	}
	name := string(nb)
	size := uint32(2*g - 1) // gaps at 0, 2, ..., 2g-2; received bytes at 1, 3, ..., 2g-3
	p := &Package{FileName: name, FileSize: size, OffsetRecord: map[int]int{}, OffsetDataRecord: map[int][]byte{}}
	for i := 0; i < g-1; i++ {
		k := i
		if desc {
			k = g - 2 - i
		}
		p.OffsetRecord[2*k+1] = 1
		p.CurrentSize++
	}
	h := newStandardJT808DataHandle(vDialects[0])
	body := v1211Body(vFile{name: name, data: nil})
	body[len(body)-4], body[len(body)-3], body[len(body)-2], body[len(body)-1] = byte(size>>24), byte(size>>16), byte(size>>8), byte(size)
	progress := &PackageProgress{Record: map[string]*Package{name: p}, handle: h}
	msg := vMsg(body)
	msg.Header.ID = 0x1212
	vrt_Assert(h.Parse(msg) == nil, "0x1212 body not accepted")
	h.OnPackageProgressEvent(progress)
	rbody, err := h.T0x1212.ReplyBody(msg)
	vrt_Assert(err == nil, "no 0x9212 body")
	vrt_Assert(len(rbody) == 1+nameLen+3+8*g, "0x9212 body length differs from 1 + name + 3 + 8 per missing range")
	vrt_Assert(int(rbody[0]) == nameLen && vrt_StrEq(string(rbody[1:1+nameLen]), name), "0x9212 body does not start with the file name")
	vrt_Assert(rbody[1+nameLen+1] == 1 && int(rbody[1+nameLen+2]) == g, "incomplete file must be answered with result 1 and the range count")
	for i := 0; i < g; i++ {
		o := rbody[1+nameLen+3+8*i:]
		off := uint32(o[0])<<24 | uint32(o[1])<<16 | uint32(o[2])<<8 | uint32(o[3])
		ln := uint32(o[4])<<24 | uint32(o[5])<<16 | uint32(o[6])<<8 | uint32(o[7])
		vrt_Assert(off == uint32(2*i) && ln == 1, "a missing range is wrong, omitted or out of order in the 0x9212 body")
	}
	var back model.P0x9212
	vrt_Assert(back.Parse(vMsg(rbody)) == nil, "terminal-side parser rejects the 0x9212 body")
	vrt_Assert(len(back.P0x9212RetransmitPacketList) == g, "terminal-side parser reads a different number of ranges")
	vrt_Cover("gaps-255", g == 255)
	vrt_Cover("long-name", nameLen == 49)
}

// c16MaxSize: bound on the symbolic file size. The interval queries over full 32-bit sizes do not
// finish within the per-query limit in any of the three solvers (bit-blasted comparisons of sums);
// sizes are therefore bounded (stated in the evidence) and offsets near 2^32 are outside the claim.
func c16MaxSize() uint32 {
	if vrt_Tier() > 0 {
		return 0x7fffffff
	}
	return 0x7fffffff
}

func init() {
	vrtHarnesses["VerifC16Resupply"] = VerifC16Resupply
}

// c16Reply9212 decodes a 0x9212 reply frame: result byte and (offset, length) pairs.
func c16Reply9212(fr []byte, nameLen int) (ok bool, result byte, ranges [][2]uint32) {
	ok, rid, body := vUnframe(fr)
	if !ok || rid != 0x9212 || len(body) < 1+nameLen+3 {
		return false, 0, nil
	}
	result = body[1+nameLen+1]
	cnt := int(body[1+nameLen+2])
	if len(body) != 1+nameLen+3+8*cnt {
		return false, 0, nil
	}
	for i := 0; i < cnt; i++ {
		o := body[1+nameLen+3+8*i:]
		ranges = append(ranges, [2]uint32{uint32(o[0])<<24 | uint32(o[1])<<16 | uint32(o[2])<<8 | uint32(o[3]), uint32(o[4])<<24 | uint32(o[5])<<16 | uint32(o[6])<<8 | uint32(o[7])})
	}
	return true, result, ranges
}

// VerifC16Resupply: over the real connection: a file whose 0x1212 arrives while a chunk is still
// missing is answered "retransmit" with exactly the missing range; after that range is resent the
// next 0x1212 is answered "complete"; a second, fully received file is then answered "complete" too.
func VerifC16Resupply() {
	d := vDialects[vrt_Choose("dialect", 2)]
	phone := vrt_Bytes("phone", 6)
	vNoEsc(phone)
	vrt_Assume(phone[0]>>4 != 0)
	size := 2 + vrt_Choose("size", 2)
	cut := 1 + vrt_Choose("cut", size-1)
	missingFirst := vrt_Choose("missingFirst", 2) == 1
	fa := vFile{name: "fa", data: vrt_Bytes("contentA", size)}
	fb := vFile{name: "fb", data: vrt_Bytes("contentB", 1)}
	fill := func(label string, k int) []byte {
		b := make([]byte, k)
		for i := range b {
			b[i] = 'A'
		}
		return b
	}
	serial := uint16(1)
	ctl := func(id uint16, body []byte) []byte {
		fr := vCtl(id, phone, serial, body)
		serial++
		vAssumeNoEscape(fr)
		return fr
	}
	present, missing := [2]int{0, cut}, [2]int{cut, size - cut}
	if missingFirst {
		present, missing = missing, present
	}
	reads := [][]byte{
		ctl(0x1210, v1210Body(d, []vFile{fa, fb}, fill)),
		ctl(0x1211, v1211Body(fa)),
		vChunk(d, fa, present[0], present[1]),
		ctl(0x1212, v1211Body(fa)), // reply index 2: retransmit [missing]
		vChunk(d, fa, missing[0], missing[1]),
		ctl(0x1212, v1211Body(fa)), // reply index 3: complete
		ctl(0x1211, v1211Body(fb)),
		vChunk(d, fb, 0, 1),
		ctl(0x1212, v1211Body(fb)), // reply index 5: complete
	}
	conn := &vConn{reads: reads, errAt: -1}
	ev := &vEvents{}
	newConnection(conn, d, nil, ev).run()
	vrt_Assert(len(conn.writes) == 6, "each control frame must be answered exactly once")
	ok, res, rg := c16Reply9212(conn.writes[2], 2)
	vrt_Assert(ok && res == 1 && len(rg) == 1 && rg[0][0] == uint32(missing[0]) && rg[0][1] == uint32(missing[1]), "incomplete file must be answered 'retransmit' with exactly the missing range")
	ok, res, rg = c16Reply9212(conn.writes[3], 2)
	vrt_Assert(ok && res == 0 && len(rg) == 0, "after the missing range was resent the completion response must say complete")
	ok, res, rg = c16Reply9212(conn.writes[5], 2)
	vrt_Assert(ok && res == 0 && len(rg) == 0, "a fully received file must be answered complete (no stale ranges from an earlier file)")
	n := 0
	for _, e := range ev.events {
		if body, has := e.complete["fa"]; has {
			n++
			vrt_Assert(vrt_BytesEq(body, fa.data), "resupplied file content differs from the original")
		}
	}
	vrt_Assert(n >= 1, "resupplied file never reported complete")
	vrt_Cover("gap-at-start", missingFirst)
	vrt_Cover("gap-at-end", !missingFirst)
}
