//go:build verif

package attachment

import "github.com/cuteLittleDevil/go-jt808/protocol/model"

func init() {
	vrtHarnesses["VerifC16Ranges"] = VerifC16Ranges
	vrtHarnesses["VerifC16Wire"] = VerifC16Wire
}

type c16Chunk struct{ off, n uint32 }

// c16State: a file of symbolic size with m received chunks, pairwise disjoint, non-empty, inside the
// file (the representation invariant of a transfer without resends), inserted in the given order.
func c16State(m int) (*Package, []c16Chunk, uint32) {
	size := vrt_U32("fileSize")
	vrt_Assume(size >= 1 && size <= c16MaxSize())
	p := &Package{FileName: "f", FileSize: size, OffsetRecord: map[int]int{}, OffsetDataRecord: map[int][]byte{}}
	var cs []c16Chunk
	var total uint32
	for i := 0; i < m; i++ {
		c := c16Chunk{vrt_U32("off"), vrt_U32("len")}
		vrt_Assume(c.n >= 1 && c.off < size && c.n <= size-c.off)
		for _, o := range cs {
			vrt_Assume(c.off+c.n <= o.off || o.off+o.n <= c.off)
		}
		cs = append(cs, c)
		p.OffsetRecord[int(c.off)] = int(c.n)
		total += c.n
	}
	p.CurrentSize = total
	return p, cs, size
}

func c16In(x uint32, off, n uint32) bool { return x >= off && x-off < n }

// VerifC16Ranges: StatisticalMissSegments from an arbitrary valid state against the specification
// "exactly the maximal missing ranges, ascending", stated over a free byte position x.
func VerifC16Ranges() {
	maxM := 3
	if vrt_Tier() > 0 {
		maxM = 4
	}
	m := vrt_Choose("chunks", maxM+1)
	p, cs, size := c16State(m)
	segs := p.StatisticalMissSegments()
	covered := p.CurrentSize == size
	if covered {
		vrt_Assert(len(segs) == 0, "complete file reported with missing ranges")
		vrt_Cover("complete", true)
		return
	}
	vrt_Assert(len(segs) > 0, "incomplete file reported without missing ranges")
	x := vrt_U32("x")
	vrt_Assume(x < size)
	inChunk := false
	for _, c := range cs {
		inChunk = vrt_Or(inChunk, c16In(x, c.off, c.n))
	}
	inSeg := false
	for _, s := range segs {
		inSeg = vrt_Or(inSeg, c16In(x, s.DataOffset, s.DataLength))
	}
	vrt_Assert(inSeg == !inChunk, "a byte is reported missing although received, or omitted although missing")
	for i, s := range segs {
		vrt_Assert(s.DataLength >= 1 && s.DataOffset < size && s.DataLength <= size-s.DataOffset, "reported range empty or outside the file")
		if i > 0 {
			prev := segs[i-1]
			vrt_Assert(prev.DataOffset+prev.DataLength < s.DataOffset, "reported ranges not ascending and maximal (adjacent or overlapping)")
		}
	}
	vrt_Cover("gap-at-start", segs[0].DataOffset == 0)
	vrt_Cover("two-gaps", len(segs) >= 2)
	vrt_Cover("single-byte-gap", segs[0].DataLength == 1)
}

// VerifC16Wire: the same states through the 0x1212 handling of the standard data handler:
// OnPackageProgressEvent stages the ranges, T0x1212.ReplyBody -> P0x9212.Encode puts result byte,
// count and (offset, length) pairs on the wire, and P0x9212.Parse (the inverse terminals use) reads
// the same list back. (The frame around the body is C15's subject, with concrete sizes.)
func VerifC16Wire() {
	m := vrt_Choose("chunks", 3)
	p, _, size := c16State(m)
	h := newStandardJT808DataHandle(vDialects[0])
	name := "f"
	body := v1211Body(vFile{name: name, data: nil})
	body[len(body)-4], body[len(body)-3], body[len(body)-2], body[len(body)-1] = byte(size>>24), byte(size>>16), byte(size>>8), byte(size)
	progress := &PackageProgress{Record: map[string]*Package{name: p}, handle: h}
	msg := vMsg(body)
	msg.Header.ID = 0x1212
	vrt_Assert(h.Parse(msg) == nil, "0x1212 body not accepted")
	h.OnPackageProgressEvent(progress)
	rbody, err := h.T0x1212.ReplyBody(msg)
	vrt_Assert(err == nil, "no 0x9212 body")
	want := p.StatisticalMissSegments()
	vrt_Assert(len(rbody) == 1+len(name)+3+8*len(want), "0x9212 body length differs")
	res, cnt := rbody[1+len(name)+1], rbody[1+len(name)+2]
	if len(want) == 0 {
		vrt_Assert(res == 0 && cnt == 0, "complete file must be answered with result 0 and no ranges")
		vrt_Cover("wire-complete", true)
		return
	}
	vrt_Assert(res == 1 && int(cnt) == len(want), "incomplete file must be answered with result 1 and the range count")
	vrt_Assert(progress.ProgressStage == ProgressStageSupplementary, "stage must be 'supplementary' when ranges are missing")
	for i, s := range want {
		o := rbody[1+len(name)+3+8*i:]
		off := uint32(o[0])<<24 | uint32(o[1])<<16 | uint32(o[2])<<8 | uint32(o[3])
		ln := uint32(o[4])<<24 | uint32(o[5])<<16 | uint32(o[6])<<8 | uint32(o[7])
		vrt_Assert(off == s.DataOffset && ln == s.DataLength, "range in the 0x9212 body differs")
	}
	var back model.P0x9212
	vrt_Assert(back.Parse(vMsg(rbody)) == nil, "terminal-side parser rejects the 0x9212 body")
	vrt_Assert(vrt_DeepEqual(back.P0x9212RetransmitPacketList, want), "terminal-side parser reads different ranges")
	vrt_Cover("wire-ranges", len(want) >= 2)
}

// c16MaxSize: bound on the symbolic file size. The interval queries over full 32-bit sizes do not
// finish within the per-query limit in any of the three solvers (bit-blasted comparisons of sums);
// sizes are therefore bounded (stated in the evidence) and offsets near 2^32 are outside the claim.
func c16MaxSize() uint32 {
	if vrt_Tier() > 0 {
		return 0x7fffffff
	}
	return 0x7fffffff
}
