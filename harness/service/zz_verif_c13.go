//go:build verif

package service

import (
	"net"
	"time"

	"github.com/cuteLittleDevil/go-jt808/shared/consts"
)

func init() {
	vrtHarnesses["VerifC13Teardown"] = VerifC13Teardown
	vrtHarnesses["VerifC13BeforeJoin"] = VerifC13BeforeJoin
}

// c13System: the real session manager, one real connection (reader and writer goroutines) on a
// scripted socket. Every goroutine is started with vrt_Go so that the native replay can tell them
// apart.
type c13System struct {
	sm   *sessionManager
	c    *connection
	conn *net.TCPConn
	ev   *vRecorder
}

func c13Start() *c13System {
	// the schedule is recorded from the very start (no deviations yet), so that the native replay
	// controls every operation of every goroutine, including selects entered early
	vrt_Sched(0)
	g := &GoJT808{}
	s := &c13System{}
	s.sm = newSessionManager(func(m *Message) (string, bool) { return m.JTMessage.Header.TerminalPhoneNo, true })
	vrt_Go(s.sm.run)
	s.ev = &vRecorder{}
	s.conn = vrt_NewTCPConn()
	vrt_ConnLive(s.conn)
	s.c = newConnection(s.conn, g.createDefaultHandle(), s.ev, true, s.sm.join, s.sm.leave)
	vrt_Go(s.c.reader)
	vrt_Go(s.c.write)
	return s
}

var c13Phone = []byte{0x01, 0x23, 0x45, 0x67, 0x89, 0x01}

// VerifC13Teardown: one online terminal; 0..2 callers issue commands (timeouts 1.5 s and the
// default); the environment then performs, in one of several orders, the peer's close, a response
// to the first command, and the expiry of the timers. From the moment the callers start, the
// schedule is free within the deviation bound: every channel operation, close, go statement,
// socket operation and sleep of the real code is a point where another goroutine may run first.
// Property: no goroutine panics (the process keeps running) and, once the peer is gone and every
// timer has expired, every SendActiveMessage call has returned with a response or an error; a
// command for the key then fails at once with the not-exist error.
func VerifC13Teardown() {
	vrt_ClockFrozen()
	s := c13Start()
	hb := &vFrame{id: 0x0002, phone: c13Phone, serial: 1}
	vrt_ConnPushRead(s.conn, hb.bytes())
	vrt_Quiesce()
	key := jt808BcdString(c13Phone)
	k := 1
	if vrt_Tier() > 0 {
		k = 2
	}
	nCallers := vrt_Choose("callers", 3)
	script := vrt_Choose("script", 5)
	// the first caller may ask for no timeout at all (negative duration): only the terminal's
	// response or its disconnect can end that call
	noTimer := nCallers > 0 && vrt_Choose("firstCallerWithoutTimeout", 2) == 1
	vrt_Sched(k)
	cmds := []uint16{0x8104, 0x8801}
	res := make([]*Message, nCallers)
	done := make([]bool, nCallers)
	for i := 0; i < nCallers; i++ {
		i := i
		vrt_Go(func() {
			d := time.Duration(1-i) * 1500 * time.Millisecond
			if i == 0 && noTimer {
				d = -1
			}
			res[i] = s.sm.write(NewActiveMessage(key, consts.JT808CommandType(cmds[i]), []byte{byte(i)}, d))
			done[i] = true
		})
	}
	vrt_Yield()
	// the response echoes a symbolic serial: the first command's (1: the heartbeat reply took 0), the
	// second's, or neither
	es := vrt_Bytes("echoedSerial", 1)
	vrt_Assume(es[0] < 4)
	rsp := &vFrame{id: 0x0001, phone: c13Phone, serial: 2, body: []byte{0, es[0], 0x81, 0x04, 0}}
	switch script {
	case 0: // the peer closes
		vrt_ConnEOF(s.conn)
		vrt_Yield()
	case 1: // a response, then the peer closes
		vrt_ConnPushRead(s.conn, rsp.bytes())
		vrt_Yield()
		vrt_ConnEOF(s.conn)
		vrt_Yield()
	case 2: // the timers expire, then the peer closes
		vrt_Wake()
		vrt_Yield()
		vrt_ConnEOF(s.conn)
		vrt_Yield()
	case 3: // the peer closes while its last message is still being handled
		vrt_ConnPushRead(s.conn, rsp.bytes())
		vrt_ConnEOF(s.conn)
		vrt_Yield()
	case 4: // writes start failing (reset), then the read side ends
		vrt_ConnFailWrites(s.conn)
		vrt_Yield()
		vrt_ConnEOF(s.conn)
		vrt_Yield()
	}
	vrt_Cover("caller-without-timeout", noTimer)
	vrt_Cover("two-callers", nCallers == 2)
	vrt_Cover("close-with-command-outstanding", nCallers > 0 && script == 0)
	vrt_Cover("response-then-close", script == 1)
	vrt_Cover("timeout-then-close", script == 2)
	vrt_Cover("write-failure", script == 4)
	// every timer expires; then nothing more can happen
	vrt_Wake()
	vrt_Quiesce()
	for i := 0; i < nCallers; i++ {
		vrt_Class("caller-stranded-by-disconnect", !done[i])
		vrt_Assert(done[i] && res[i] != nil, "SendActiveMessage has not returned although the terminal is gone and every timeout has expired")
	}
	late := s.sm.write(NewActiveMessage(key, consts.JT808CommandType(0x8104), []byte{9}, time.Second))
	vrt_Assert(late != nil && late.ExtensionFields.Err != nil, "a command for a terminal that has disconnected must fail at once")
}

// VerifC13BeforeJoin: the peer goes away before it has sent a complete first message (never
// joined), or right after a message that is refused; a command for its key fails at once.
func VerifC13BeforeJoin() {
	vrt_ClockFrozen()
	s := c13Start()
	k := 1
	if vrt_Tier() > 0 {
		k = 3 // this scenario is small enough for three deviations
	}
	kind := vrt_Choose("kind", 3)
	vrt_Quiesce() // deviations start from a quiescent system (reader, writer, registry all waiting)
	vrt_Sched(k)
	switch kind {
	case 1: // half a frame
		hb := &vFrame{id: 0x0002, phone: c13Phone, serial: 1}
		b := hb.bytes()
		vrt_ConnPushRead(s.conn, b[:len(b)/2])
	case 2: // a complete first message and the close right behind it
		hb := &vFrame{id: 0x0002, phone: c13Phone, serial: 1}
		vrt_ConnPushRead(s.conn, hb.bytes())
	}
	done := false
	var res *Message
	vrt_Go(func() {
		res = s.sm.write(NewActiveMessage(jt808BcdString(c13Phone), consts.JT808CommandType(0x8104), []byte{1}, time.Second))
		done = true
	})
	vrt_ConnEOF(s.conn)
	vrt_Yield()
	vrt_Wake()
	vrt_Quiesce()
	vrt_Cover("closed-before-first-message", kind == 0)
	vrt_Cover("closed-mid-frame", kind == 1)
	vrt_Class("caller-stranded-by-disconnect", !done)
	vrt_Assert(done && res != nil, "SendActiveMessage has not returned although the terminal is gone and every timeout has expired")
}
