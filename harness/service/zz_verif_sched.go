//go:build verif

package service

import (
	"fmt"
	"os"
	"runtime"
	"strconv"
	"strings"
	"sync"
	"sync/atomic"
	"time"
)

// Native side of schedule replay. The executor's schedule trace lists the visible operations of
// all goroutines in the order in which they were executed. In the instrumented copy of package
// service every such operation is preceded by vrtGate(kind): the calling goroutine waits there
// until the trace says it is its turn and the operation released before it has taken effect (its
// goroutine has reached its next gate, has finished, or - for operations the executor saw block -
// a short grace period has passed). The trace also says where a parked goroutine went on (or a new
// one started) in the executor ("resume" events): no gate corresponds to these; whoever is waiting
// consumes them, and from then on nothing else is released until that goroutine has reached its
// next gate or has finished - so the harness never looks at state that a goroutine woken by an
// earlier operation is still about to change. What remains concurrent natively is the stretch
// between the operation that wakes a goroutine and that goroutine's resume event; state the
// harness's own callbacks share between goroutines is therefore locked. Goroutines are
// identified by creation order, which the gates make deterministic. After the end of the trace
// everything runs freely.

type vrtSchedState struct {
	mu        sync.Mutex
	on        bool
	epoch     int
	trace     []vrtSchedEv
	pos       int
	ids       map[int64]int // runtime goroutine id -> logical id (creation order, main = 0)
	nextID    int
	atGate    map[int]bool
	done      map[int]bool
	last      int
	lastBlk   bool
	lastAt    time.Time
	wakeGen   int
	sel       map[int]*int // per goroutine: the clause its current select must take (nil: free)
	awaiting  map[int]bool // goroutines parked in vrtAwaitTurn: they take their resume event themselves
	diverged  string
}

// the wall clock (the replay overlay redirects the harness files' literal time.Now calls to the script)
var vrtWall = time.Now

// debugging aid (read natively on load; package initialisers also run inside the executor)
var vrtSchedDebug atomic.Bool

var vrtSS = &vrtSchedState{ids: map[int64]int{}, atGate: map[int]bool{}, done: map[int]bool{}, sel: map[int]*int{}, awaiting: map[int]bool{}, nextID: 1}

func init() {
	vrtDivergedHook = vrtSchedDiverged
	vrtOnLoad = func() {
		vrtSchedDebug.Store(os.Getenv("VERIF_SCHED_DEBUG") != "")
		s := vrtSS
		s.mu.Lock()
		defer s.mu.Unlock()
		s.on = false
		s.epoch++
		s.trace = vrtState.file.Sched
		s.pos = 0
		s.ids = map[int64]int{vrtGoid(): 0}
		s.nextID = 1
		s.atGate = map[int]bool{}
		s.done = map[int]bool{}
		s.sel = map[int]*int{}
		s.awaiting = map[int]bool{}
		s.last = -1
		s.wakeGen++
		s.diverged = ""
	}
}

func vrtGoid() int64 {
	var buf [64]byte
	n := runtime.Stack(buf[:], false)
	f := strings.Fields(string(buf[:n]))
	if len(f) < 2 {
		return -1
	}
	id, _ := strconv.ParseInt(f[1], 10, 64)
	return id
}

func vrtSchedOn() bool {
	s := vrtSS
	s.mu.Lock()
	defer s.mu.Unlock()
	return s.on
}

// vrt_Sched(k): schedule mode with at most k deviations (engine); natively the recorded schedule
// is enforced from here on.
func vrt_Sched(k int) {
	s := vrtSS
	s.mu.Lock()
	s.on = len(s.trace) > 0
	s.ids[vrtGoid()] = 0
	s.mu.Unlock()
}

// settled: the operation released last has taken effect.
func (s *vrtSchedState) settled() bool {
	if s.last < 0 || s.atGate[s.last] || s.done[s.last] {
		return true
	}
	d := time.Since(s.lastAt)
	if s.lastBlk {
		return d > 5*time.Millisecond
	}
	return d > vrtRunGrace
}

// vrtRunGrace: how long the replay waits for a goroutine that the trace says is running to reach
// its next gate or to finish before it goes on regardless (a safety net: in a faithful replay the
// goroutine always gets there, however slow the machine).
const vrtRunGrace = 2 * time.Second

// consumeResumes (lock held): resume events at the head of the trace are taken as soon as what
// ran before has settled; the resumed goroutine becomes the one everything else waits for.
func (s *vrtSchedState) consumeResumes() {
	for s.on && s.pos < len(s.trace) && s.trace[s.pos].Kind == "resume" && !s.awaiting[s.trace[s.pos].G] && s.settled() {
		ev := s.trace[s.pos]
		if vrtSchedDebug.Load() {
			fmt.Printf("SCHED %d: g%d resumes\n", s.pos, ev.G)
		}
		s.pos++
		s.last, s.lastBlk, s.lastAt = ev.G, false, vrtWall()
	}
}

// vrtGate: called before every visible operation.
func vrtGate(kind string) {
	s := vrtSS
	s.mu.Lock()
	if !s.on {
		s.mu.Unlock()
		return
	}
	me, ok := s.ids[vrtGoid()]
	if !ok {
		if vrtSchedDebug.Load() {
			fmt.Printf("SCHED gate %s from unregistered goroutine %d\n", kind, vrtGoid())
		}
		s.mu.Unlock()
		return
	}
	if vrtSchedDebug.Load() {
		fmt.Printf("SCHED g%d arrives at %s (pos %d)\n", me, kind, s.pos)
	}
	epoch := s.epoch
	s.atGate[me] = true
	start := vrtWall()
	for {
		if !s.on || s.epoch != epoch || s.pos >= len(s.trace) {
			s.atGate[me] = false
			s.sel[me] = nil
			s.mu.Unlock()
			return
		}
		s.consumeResumes()
		if s.pos >= len(s.trace) {
			continue
		}
		ev := s.trace[s.pos]
		if ev.G == me && ev.Kind != "resume" && s.settled() {
			if ev.Kind != kind && s.diverged == "" {
				s.diverged = fmt.Sprintf("goroutine %d performs %s where the trace has %s (event %d)", me, kind, ev.Kind, s.pos)
			}
			if vrtSchedDebug.Load() {
				fmt.Printf("SCHED %d: g%d %s (trace %s)\n", s.pos, me, kind, ev.Kind)
			}
			s.pos++
			s.atGate[me] = false
			s.sel[me] = ev.Sel
			s.last, s.lastBlk, s.lastAt = me, ev.Blocks, vrtWall()
			s.mu.Unlock()
			return
		}
		if time.Since(start) > 8*time.Second {
			if s.diverged == "" {
				s.diverged = fmt.Sprintf("goroutine %d waited 8 s at %s for event %d (%d/%s)", me, kind, s.pos, ev.G, ev.Kind)
			}
			s.on = false
			s.atGate[me] = false
			s.mu.Unlock()
			return
		}
		s.mu.Unlock()
		time.Sleep(100 * time.Microsecond)
		s.mu.Lock()
	}
}

// vrtAwaitTurn: the calling (harness) goroutine waits until the trace has reached its next
// operation, or its end, and the last released operation has taken effect.
func vrtAwaitTurn() {
	s := vrtSS
	s.mu.Lock()
	me := s.ids[vrtGoid()]
	epoch := s.epoch
	start := vrtWall()
	s.atGate[me] = true
	s.awaiting[me] = true
	defer func() {
		s.mu.Lock()
		s.atGate[me] = false
		s.awaiting[me] = false
		s.mu.Unlock()
	}()
	for s.on && s.epoch == epoch {
		if s.pos < len(s.trace) && s.trace[s.pos].Kind == "resume" && s.trace[s.pos].G == me && s.settled() {
			// the executor went on with the harness here: it is the running goroutine from now on
			if vrtSchedDebug.Load() {
				fmt.Printf("SCHED %d: g%d (harness) resumes\n", s.pos, me)
			}
			s.pos++
			s.atGate[me] = false
			s.awaiting[me] = false
			s.last, s.lastBlk, s.lastAt = me, false, vrtWall()
			s.mu.Unlock()
			return
		}
		s.consumeResumes()
		if (s.pos >= len(s.trace) || (s.trace[s.pos].G == me && s.trace[s.pos].Kind != "resume")) && s.settled() {
			break
		}
		if time.Since(start) > 8*time.Second {
			if s.diverged == "" {
				s.diverged = fmt.Sprintf("harness waited 8 s for event %d", s.pos)
			}
			s.on = false
			break
		}
		s.mu.Unlock()
		time.Sleep(100 * time.Microsecond)
		s.mu.Lock()
	}
	atEnd := s.pos >= len(s.trace)
	s.mu.Unlock()
	if atEnd {
		// past the end of the trace nothing is ordered any more: give the rest time to settle
		time.Sleep(30 * time.Millisecond)
	}
}

// vrt_Quiesce: wait until nothing else can run.
func vrt_Quiesce() {
	if vrtSchedOn() {
		vrtGate("quiesce")
		vrtAwaitTurn()
		return
	}
	time.Sleep(150 * time.Millisecond)
}

func vrtWakeAll() {
	s := vrtSS
	s.mu.Lock()
	s.wakeGen++
	s.mu.Unlock()
}

// vrtSleep replaces time.Sleep in the instrumented copy: during schedule replay the sleeper waits
// for the harness's vrt_Wake instead of the wall clock.
func vrtSleep(d time.Duration) {
	s := vrtSS
	s.mu.Lock()
	on := s.on
	_, known := s.ids[vrtGoid()]
	gen, epoch := s.wakeGen, s.epoch
	s.mu.Unlock()
	if !on || !known {
		time.Sleep(d)
		return
	}
	vrtGate("sleep")
	for {
		s.mu.Lock()
		stop := s.wakeGen != gen || s.epoch != epoch || !s.on
		s.mu.Unlock()
		if stop {
			return
		}
		time.Sleep(200 * time.Microsecond)
	}
}

func vrtSpawn() int {
	vrtGate("go")
	s := vrtSS
	s.mu.Lock()
	id := s.nextID
	s.nextID++
	s.mu.Unlock()
	return id
}

func vrtEnter(id int) {
	s := vrtSS
	s.mu.Lock()
	s.ids[vrtGoid()] = id
	s.mu.Unlock()
}

func vrtExit(id int) {
	s := vrtSS
	s.mu.Lock()
	s.done[id] = true
	s.mu.Unlock()
}

// vrt_Go starts f as a goroutine with a reproducible identity.
func vrt_Go(f func()) { vrtGo0(f) }

func vrtGo0(f func()) {
	id := vrtSpawn()
	go func() {
		vrtEnter(id)
		defer vrtExit(id)
		f()
	}()
}

func vrtGo1[A any](f func(A), a A) {
	id := vrtSpawn()
	go func() {
		vrtEnter(id)
		defer vrtExit(id)
		f(a)
	}()
}

func vrtGo2[A, B any](f func(A, B), a A, b B) {
	id := vrtSpawn()
	go func() {
		vrtEnter(id)
		defer vrtExit(id)
		f(a, b)
	}()
}

func vrtGo3[A, B, C any](f func(A, B, C), a A, b B, c C) {
	id := vrtSpawn()
	go func() {
		vrtEnter(id)
		defer vrtExit(id)
		f(a, b, c)
	}()
}

// vrtMask is wrapped around the channel of every clause of an instrumented select: while a
// schedule is replayed, the channels of the clauses the executor did not take are replaced by nil
// (a nil channel is never ready), so the native select takes the recorded clause.
func vrtMask[C any](idx int, ch C) C {
	s := vrtSS
	s.mu.Lock()
	defer s.mu.Unlock()
	if !s.on {
		return ch
	}
	me, ok := s.ids[vrtGoid()]
	if !ok {
		return ch
	}
	if want := s.sel[me]; want != nil && *want != idx {
		var none C
		return none
	}
	return ch
}

// vrtClose replaces `defer close(ch)`.
func vrtClose[T any](ch chan<- T) {
	vrtGate("close")
	close(ch)
}

// vrtRecvAll replaces `range ch`: one receive gate per iteration.
func vrtRecvAll[T any](ch <-chan T) func(yield func(T) bool) {
	return func(yield func(T) bool) {
		for {
			vrtGate("recv")
			v, ok := <-ch
			if !ok || !yield(v) {
				return
			}
		}
	}
}

// vrtSchedDiverged reports why the native run left the recorded schedule ("" if it did not).
func vrtSchedDiverged() string {
	s := vrtSS
	s.mu.Lock()
	defer s.mu.Unlock()
	return s.diverged
}
