//go:build verif

package service

import (
	"net"
	"sync"
	"time"
)

// Scripted TCP connection. The engine intercepts these functions and models Read/Write/Close of the
// returned *net.TCPConn from the script. Natively a loopback connection is used: a feeder goroutine
// writes one scripted chunk at a time (paced so that each arrives in its own Read), then closes its
// side, which the server side sees as EOF.

type vrtNativeConn struct {
	// schedule replay: at most one scripted chunk is in the socket at a time, handed over when the
	// reader passes its Read gate (or, if it is already waiting in Read, when the chunk is pushed), so
	// that every push arrives in its own Read as in the executor (nil = the peer's close)
	queue   [][]byte
	waiting bool
	live    bool
	client  *net.TCPConn
	chunks  [][]byte
	mu      sync.Mutex
	written []byte
	sent    int // schedule replay: bytes the code under test has written to the socket (vrtConnWrite)
}

var vrtConns = map[*net.TCPConn]*vrtNativeConn{}
var vrtConnsMu sync.RWMutex

func vrtConnOf(c *net.TCPConn) *vrtNativeConn {
	vrtConnsMu.RLock()
	defer vrtConnsMu.RUnlock()
	return vrtConns[c]
}

func (nc *vrtNativeConn) deliver(item []byte) {
	if item == nil {
		nc.client.CloseWrite()
		return
	}
	nc.client.Write(item)
}

// vrtGateConn: gate of a socket operation; a Read additionally takes the next scripted chunk.
func vrtGateConn(kind string, c *net.TCPConn) {
	vrtGate(kind)
	if kind != "conn.Read" || !vrtSchedOn() {
		return
	}
	nc := vrtConnOf(c)
	if nc == nil {
		return
	}
	nc.mu.Lock()
	defer nc.mu.Unlock()
	if len(nc.queue) > 0 {
		item := nc.queue[0]
		nc.queue = nc.queue[1:]
		nc.waiting = false
		nc.deliver(item)
	} else {
		nc.waiting = true
	}
}

func (nc *vrtNativeConn) schedPush(item []byte) {
	nc.mu.Lock()
	defer nc.mu.Unlock()
	if nc.waiting {
		nc.waiting = false
		nc.deliver(item)
		return
	}
	nc.queue = append(nc.queue, item)
}

func vrt_NewTCPConn() *net.TCPConn {
	ln, err := net.ListenTCP("tcp", &net.TCPAddr{IP: net.IPv4(127, 0, 0, 1)})
	if err != nil {
		panic(vrtDivergence{"cannot listen on loopback: " + err.Error()})
	}
	defer ln.Close()
	cc, err := net.DialTCP("tcp", nil, ln.Addr().(*net.TCPAddr))
	if err != nil {
		panic(vrtDivergence{"cannot dial loopback: " + err.Error()})
	}
	sc, err := ln.AcceptTCP()
	if err != nil {
		panic(vrtDivergence{"cannot accept on loopback: " + err.Error()})
	}
	cc.SetNoDelay(true)
	nc := &vrtNativeConn{client: cc}
	vrtConnsMu.Lock()
	vrtConns[sc] = nc
	vrtConnsMu.Unlock()
	go func() {
		buf := make([]byte, 4096)
		for {
			n, err := cc.Read(buf)
			nc.mu.Lock()
			nc.written = append(nc.written, buf[:n]...)
			nc.mu.Unlock()
			if err != nil {
				return
			}
		}
	}()
	return sc
}

func vrt_ConnPushRead(c *net.TCPConn, data []byte) {
	vrtGate("push")
	nc := vrtConnOf(c)
	if nc.live && vrtSchedOn() {
		if len(data) > 0 {
			nc.schedPush(append([]byte{}, data...))
		}
		return
	}
	if nc.live {
		if len(data) > 0 {
			nc.client.Write(data)
		}
		time.Sleep(40 * time.Millisecond)
		return
	}
	nc.chunks = append(nc.chunks, append([]byte{}, data...))
}

// vrt_ConnLive: reads block when no scripted data is left (instead of reporting EOF); data pushed
// afterwards is delivered at once, each push in its own Read.
func vrt_ConnLive(c *net.TCPConn) { vrtConnOf(c).live = true }

// vrt_ConnEOF: the peer closes its side.
func vrt_ConnEOF(c *net.TCPConn) {
	vrtGate("eof")
	if vrtSchedOn() {
		vrtConnOf(c).schedPush(nil)
		return
	}
	vrtConnOf(c).client.CloseWrite()
	time.Sleep(40 * time.Millisecond)
}

// vrt_Yield lets the other goroutines run until they block (engine: cooperative scheduler).
func vrt_Yield() {
	if vrtSchedOn() {
		vrtGate("yield")
		vrtAwaitTurn()
		return
	}
	time.Sleep(60 * time.Millisecond)
}

// vrt_Wake releases goroutines parked in time.Sleep (engine); natively time passes by itself
// (schedule replay: sleepers wait for this call instead of the wall clock).
func vrt_Wake() {
	if vrtSchedOn() {
		vrtGate("wake")
		vrtWakeAll()
		return
	}
	time.Sleep(3300 * time.Millisecond)
}

// vrt_ConnStart begins delivering the script (natively); the harness then runs the reader.
func vrt_ConnStart(c *net.TCPConn) {
	nc := vrtConnOf(c)
	go func() {
		for _, ch := range nc.chunks {
			if len(ch) > 0 {
				nc.client.Write(ch)
			}
			time.Sleep(40 * time.Millisecond)
		}
		nc.client.CloseWrite()
	}()
}

func vrt_ConnWritten(c *net.TCPConn) []byte {
	vrtGate("observe")
	nc := vrtConnOf(c)
	if vrtSchedOn() {
		// schedule replay: every write of the code under test has been counted, and the gates have
		// ordered this call after them - wait until the peer's side has received all of it
		for start := vrtWall(); time.Since(start) < 10*time.Second; time.Sleep(200 * time.Microsecond) {
			nc.mu.Lock()
			all := len(nc.written) >= nc.sent
			nc.mu.Unlock()
			if all {
				break
			}
		}
	} else {
		time.Sleep(60 * time.Millisecond)
	}
	nc.mu.Lock()
	defer nc.mu.Unlock()
	return append([]byte{}, nc.written...)
}

// vrtConnWrite replaces conn.Write in the instrumented copy of the package (schedule replay).
func vrtConnWrite(c *net.TCPConn, b []byte) (int, error) {
	n, err := c.Write(b)
	if nc := vrtConnOf(c); nc != nil && n > 0 {
		nc.mu.Lock()
		nc.sent += n
		nc.mu.Unlock()
	}
	return n, err
}

// vrt_ConnFailWrites: from now on writes to the connection fail (natively: the write half is shut).
func vrt_ConnFailWrites(c *net.TCPConn) {
	vrtGate("failwrites")
	c.CloseWrite()
}

