//go:build verif

package service

import (
	"github.com/cuteLittleDevil/go-jt808/protocol/model"
	"github.com/cuteLittleDevil/go-jt808/shared/consts"
)

func init() {
	vrtHarnesses["VerifC09Stable"] = VerifC09Stable
}

// vRecorder is a Handler/TerminalEventer that snapshots every message it is shown.
type vRecorder struct {
	model.BaseHandle
	proto    consts.JT808CommandType
	reads    []*Message
	readSnap []vSnap
	writes   int
	joins    []string
	leaves   []string
	notSupp  int
}

func (v *vRecorder) Protocol() consts.JT808CommandType { return v.proto }
func (v *vRecorder) OnReadExecutionEvent(msg *Message) {
	v.reads = append(v.reads, msg)
	v.readSnap = append(v.readSnap, vSnapOf(msg))
}
func (v *vRecorder) OnWriteExecutionEvent(msg Message)               { v.writes++ }
func (v *vRecorder) OnJoinEvent(msg *Message, key string, err error) { v.joins = append(v.joins, key) }
func (v *vRecorder) OnLeaveEvent(key string)                         { v.leaves = append(v.leaves, key) }
func (v *vRecorder) OnNotSupportedEvent(msg *Message)                { v.notSupp++ }

// vNewConn builds a real connection object around a scripted socket with recording handlers.
func vNewConn(rec *vRecorder, ids []uint16) (*connection, map[consts.JT808CommandType]Handler) {
	return vNewConnEv(rec, &vRecorder{}, ids)
}

func vNewConnEv(rec, ev *vRecorder, ids []uint16) (*connection, map[consts.JT808CommandType]Handler) {
	handles := map[consts.JT808CommandType]Handler{}
	for _, id := range ids {
		handles[consts.JT808CommandType(id)] = rec
	}
	conn := vrt_NewTCPConn()
	c := newConnection(conn, handles, ev, true,
		func(message *Message, activeChan chan<- *ActiveMessage) (string, error) {
			return message.JTMessage.Header.TerminalPhoneNo, nil
		}, func(key string) {})
	return c, handles
}

// VerifC09Stable: the real connection.reader is fed 2-3 reads through the scripted socket; every
// message shown to the read callback is snapshotted at that moment and must be unchanged after all
// later reads and after the reader's clean-up at connection end; so must the messages queued for
// the writer.
func VerifC09Stable() {
	vrt_ClockFrozen()
	nReads := 2 + vrt_Choose("reads", 2)
	rec := &vRecorder{proto: 0x0200}
	c, _ := vNewConn(rec, []uint16{0x0200, 0x0002, 0x0801})
	kinds := make([]int, nReads)
	for i := 0; i < nReads; i++ {
		// 0: one escape-free frame, 1: one frame with an escaped byte, 2: two frames in one read,
		// 3: a complete two-packet sub-packaged message in one read (reassembled data must be stable too)
		kinds[i] = vrt_Choose("readKind", 4)
		switch kinds[i] {
		case 0:
			f := vGenFrame("f", 0x0200, false, 2, 0)
			vNoSpecialChecksum(f)
			vrt_ConnPushRead(c.conn, f.bytes())
		case 1:
			f := vGenFrame("e", 0x0200, false, 2, 0)
			sp := vrt_Byte("special")
			vrt_Assume(vrtEscSpecial(sp))
			f.body[1] = sp
			vNoSpecialChecksum(f)
			vrt_ConnPushRead(c.conn, f.bytes())
		case 3:
			parts := c05Transfer("sp", 0x0801, 2, 0)
			vrt_ConnPushRead(c.conn, append(parts[0].bytes(), parts[1].bytes()...))
		case 2:
			f1 := vGenFrame("a", 0x0002, false, 0, 0)
			vNoSpecialChecksum(f1)
			f2 := vGenFrame("b", 0x0200, false, 1, 0)
			vNoSpecialChecksum(f2)
			vrt_ConnPushRead(c.conn, append(f1.bytes(), f2.bytes()...))
		}
	}
	vrt_ConnStart(c.conn)
	c.reader() // runs until the script ends (EOF), then stop() and the deferred clean-up
	want := 0
	for _, k := range kinds {
		want++ // kind 3: only the complete message reaches the callback (sub-packages are filtered)
		if k == 2 {
			want++
		}
	}
	vrt_Assert(len(rec.reads) == want, "number of messages shown to the read callback differs")
	ok := true
	for i, m := range rec.reads {
		ok = vrt_And(ok, vSnapEq(rec.readSnap[i], vSnapOf(m)))
	}
	vrt_Assert(ok, "a delivered message changed after later data arrived or the connection closed")
	vrt_Cover("fast-path-then-more", kinds[0] == 0)
	vrt_Cover("buffered-path-then-more", kinds[0] == 2)
	vrt_Cover("two-reassembled-messages", kinds[0] == 3 && kinds[1] == 3)
}
