//go:build verif

package service

import (
	"net"
	"github.com/cuteLittleDevil/go-jt808/protocol/model"
	"github.com/cuteLittleDevil/go-jt808/shared/consts"
)

func init() {
	vrtHarnesses["VerifC09Schedules"] = VerifC09Schedules
	vrtHarnesses["VerifC09Stable"] = VerifC09Stable
}

// vRecorder is a Handler/TerminalEventer that snapshots every message it is shown.
type vRecorder struct {
	model.BaseHandle
	proto    consts.JT808CommandType
	reads    []*Message
	readSnap []vSnap
	writes   int
	joins    []string
	leaves   []string
	notSupp  int
}

func (v *vRecorder) Protocol() consts.JT808CommandType { return v.proto }
func (v *vRecorder) OnReadExecutionEvent(msg *Message) {
	v.reads = append(v.reads, msg)
	v.readSnap = append(v.readSnap, vSnapOf(msg))
}
func (v *vRecorder) OnWriteExecutionEvent(msg Message)               { v.writes++ }
func (v *vRecorder) OnJoinEvent(msg *Message, key string, err error) { v.joins = append(v.joins, key) }
func (v *vRecorder) OnLeaveEvent(key string)                         { v.leaves = append(v.leaves, key) }
func (v *vRecorder) OnNotSupportedEvent(msg *Message)                { v.notSupp++ }

// vNewConn builds a real connection object around a scripted socket with recording handlers.
func vNewConn(rec *vRecorder, ids []uint16) (*connection, map[consts.JT808CommandType]Handler) {
	return vNewConnEv(rec, &vRecorder{}, ids)
}

func vNewConnEv(rec, ev *vRecorder, ids []uint16) (*connection, map[consts.JT808CommandType]Handler) {
	handles := map[consts.JT808CommandType]Handler{}
	for _, id := range ids {
		handles[consts.JT808CommandType(id)] = rec
	}
	conn := vrt_NewTCPConn()
	c := newConnection(conn, handles, ev, true,
		func(message *Message, activeChan chan<- *ActiveMessage) (string, error) {
			return message.JTMessage.Header.TerminalPhoneNo, nil
		}, func(key string) {})
	return c, handles
}

// VerifC09Stable: the real connection.reader is fed 2-3 reads through the scripted socket; every
// message shown to the read callback is snapshotted at that moment and must be unchanged after all
// later reads and after the reader's clean-up at connection end; so must the messages queued for
// the writer.
func VerifC09Stable() {
	vrt_ClockFrozen()
	nReads := 2 + vrt_Choose("reads", 2)
	rec := &vRecorder{proto: 0x0200}
	c, _ := vNewConn(rec, []uint16{0x0200, 0x0002, 0x0801})
	kinds := make([]int, nReads)
	for i := 0; i < nReads; i++ {
		// 0: one escape-free frame, 1: one frame with an escaped byte, 2: two frames in one read,
		// 3: a complete two-packet sub-packaged message in one read (reassembled data must be stable too)
		kinds[i] = vrt_Choose("readKind", 4)
		switch kinds[i] {
		case 0:
			f := vGenFrame("f", 0x0200, false, 2, 0)
			vNoSpecialChecksum(f)
			vrt_ConnPushRead(c.conn, f.bytes())
		case 1:
			f := vGenFrame("e", 0x0200, false, 2, 0)
			sp := vrt_Byte("special")
			vrt_Assume(vrtEscSpecial(sp))
			f.body[1] = sp
			vNoSpecialChecksum(f)
			vrt_ConnPushRead(c.conn, f.bytes())
		case 3:
			parts := c05Transfer("sp", 0x0801, 2, 0)
			vrt_ConnPushRead(c.conn, append(parts[0].bytes(), parts[1].bytes()...))
		case 2:
			f1 := vGenFrame("a", 0x0002, false, 0, 0)
			vNoSpecialChecksum(f1)
			f2 := vGenFrame("b", 0x0200, false, 1, 0)
			vNoSpecialChecksum(f2)
			vrt_ConnPushRead(c.conn, append(f1.bytes(), f2.bytes()...))
		}
	}
	vrt_ConnStart(c.conn)
	c.reader() // runs until the script ends (EOF), then stop() and the deferred clean-up
	want := 0
	for _, k := range kinds {
		want++ // kind 3: only the complete message reaches the callback (sub-packages are filtered)
		if k == 2 {
			want++
		}
	}
	vrt_Assert(len(rec.reads) == want, "number of messages shown to the read callback differs")
	ok := true
	for i, m := range rec.reads {
		ok = vrt_And(ok, vSnapEq(rec.readSnap[i], vSnapOf(m)))
	}
	vrt_Assert(ok, "a delivered message changed after later data arrived or the connection closed")
	vrt_Cover("fast-path-then-more", kinds[0] == 0)
	vrt_Cover("buffered-path-then-more", kinds[0] == 2)
	vrt_Cover("two-reassembled-messages", kinds[0] == 3 && kinds[1] == 3)
}

// c09Rec snapshots every message at the moment a callback sees it.
type c09Rec struct {
	vRecorder
	wrote [][]byte // bytes each write callback was shown (PlatformData), copied
	wsnap []vSnap  // the message as the write callback saw it
	wmsgs []Message
	conn  *net.TCPConn
	writtenAtRead []int // number of frames on the socket when each read callback ran
}

func (r *c09Rec) OnReadExecutionEvent(msg *Message) {
	r.vRecorder.OnReadExecutionEvent(msg)
	r.writtenAtRead = append(r.writtenAtRead, len(c06Frames(vrt_ConnWritten(r.conn))))
}

func (r *c09Rec) OnWriteExecutionEvent(msg Message) {
	r.wrote = append(r.wrote, append([]byte{}, msg.ExtensionFields.PlatformData...))
	r.wsnap = append(r.wsnap, vSnapOf(&msg))
	r.wmsgs = append(r.wmsgs, msg)
}

// VerifC09Schedules (C09 and C06): the real registry, reader and writer goroutines; three frames
// with symbolic serials and bodies (a heartbeat, a location report, a location report whose body
// holds an escaped byte) arrive in three reads, settled or back to back, under the default schedule
// and every schedule within the deviation bound - so the reader refills its 1023-byte buffer while
// the writer is still answering an earlier message. On the final quiescent state: three messages
// were shown to the read callback, in order, and each still equals its snapshot; the three replies
// on the socket are general responses in request order, each echoing its own request's serial and
// ID, with platform serials 0, 1, 2; each write callback saw exactly the bytes that were sent and a
// message that still equals its snapshot; the same holds after the peer has closed.
func VerifC09Schedules() {
	vrt_ClockFrozen()
	vrt_Sched(0)
	g := &GoJT808{}
	sm := newSessionManager(func(m *Message) (string, bool) { return m.JTMessage.Header.TerminalPhoneNo, true })
	vrt_Go(sm.run)
	conn := vrt_NewTCPConn()
	vrt_ConnLive(conn)
	ev := &c09Rec{conn: conn}
	c := newConnection(conn, g.createDefaultHandle(), ev, true, sm.join, sm.leave)
	vrt_Go(c.reader)
	vrt_Go(c.write)
	phone := []byte{0x01, 0x23, 0x45, 0x67, 0x89, 0x04}
	mk := func(label string, id uint16, n int, special bool) *vFrame {
		sb := vrt_Bytes(label+".serial", 2)
		f := &vFrame{id: id, phone: phone, serial: uint16(sb[0])<<8 | uint16(sb[1]), body: vrt_Bytes(label+".body", n)}
		k := 0
		if special {
			k = 1
			vrt_Assume(vrtEscSpecial(f.body[n-1]))
		}
		vrtKSpecial(label+".sp", k, vrtEscSpecial, sb, f.body)
		vNoSpecialChecksum(f)
		return f
	}
	fs := []*vFrame{mk("hb", 0x0002, 0, false), mk("loc", 0x0200, 28, false), mk("esc", 0x0200, 28, true)}
	vrt_Quiesce()
	k := 1
	if vrt_Tier() > 0 {
		k = 2
	}
	backToBack := vrt_Choose("backToBack", 2) == 1
	vrt_Sched(k)
	for _, f := range fs {
		vrt_ConnPushRead(conn, f.bytes())
		if !backToBack {
			vrt_Yield()
		}
	}
	vrt_Quiesce()
	check := func() {
		vrt_Assert(len(ev.reads) == 3, "number of messages shown to the read callback differs")
		ok := true
		for i, m := range ev.reads {
			ok = vrt_And(ok, vSnapEq(ev.readSnap[i], vSnapOf(m)))
			ok = vrt_And(ok, m.JTMessage.Header.SerialNumber == fs[i].serial && m.JTMessage.Header.ID == fs[i].id)
			ok = vrt_And(ok, vrt_BytesEq(m.JTMessage.Body, fs[i].body))
		}
		vrt_Assert(ok, "a delivered message changed after later data arrived, or messages were delivered out of order")
		for i, w := range ev.writtenAtRead {
			vrt_Assert(w <= i, "a reply was already on the socket when its request was reported to the read callback")
		}
		frames := c06Frames(vrt_ConnWritten(conn))
		vrt_Assert(len(frames) == 3 && len(ev.wrote) == 3, "each request must get exactly one reply, reported once to the write callback")
		for i, fr := range frames {
			okf, id, ph, serial, body := c06Unframe(fr, false)
			vrt_Assert(okf && id == 0x8001 && vrt_BytesEq(ph, phone), "reply is not a general response addressed to the sender")
			vrt_Assert(serial == uint16(i), "platform serials of the replies are not 0, 1, 2 in order")
			vrt_Assert(len(body) == 5 && uint16(body[0])<<8|uint16(body[1]) == fs[i].serial && uint16(body[2])<<8|uint16(body[3]) == fs[i].id && body[4] == 0, "reply does not echo its own request's serial and ID (in request order)")
			vrt_Assert(vrt_BytesEq(ev.wrote[i], fr), "the write callback was shown bytes other than those sent")
			vrt_Assert(vSnapEq(ev.wsnap[i], vSnapOf(&ev.wmsgs[i])), "a message shown to the write callback changed afterwards")
		}
	}
	check()
	vrt_ConnEOF(conn)
	vrt_Quiesce()
	check()
	vrt_Cover("back-to-back", backToBack)
	vrt_Cover("settled", !backToBack)
}
