//go:build verif

package service

import (
	"errors"
	"time"

	"github.com/cuteLittleDevil/go-jt808/shared/consts"
)

func init() {
	vrtHarnesses["VerifC12Matching"] = VerifC12Matching
}

// c12Response: a minimal well-formed terminal response of the given type echoing serial es.
func c12Response(kind int, phone []byte, serial uint16, es uint16, id uint16) *vFrame {
	hi, lo := byte(es>>8), byte(es)
	switch kind {
	case 1: // 0x0104 parameter query response: serial, count 0
		return &vFrame{id: 0x0104, phone: phone, serial: serial, body: []byte{hi, lo, 0}}
	case 2: // 0x0805 camera response: serial, result, 0 IDs
		return &vFrame{id: 0x0805, phone: phone, serial: serial, body: []byte{hi, lo, 0, 0, 0}}
	case 3: // 0x1205 resource list: serial, 0 entries
		return &vFrame{id: 0x1205, phone: phone, serial: serial, body: []byte{hi, lo, 0, 0, 0, 0}}
	case 4: // 0x1206 upload complete notice: serial, result
		return &vFrame{id: 0x1206, phone: phone, serial: serial, body: []byte{hi, lo, 0}}
	}
	return &vFrame{id: 0x0001, phone: phone, serial: serial, body: []byte{hi, lo, byte(id >> 8), byte(id), 0}}
}

// VerifC12Matching: one online terminal, up to two callers with outstanding commands, terminal
// responses whose echoed serial is symbolic (so "echoes command 1", "echoes command 2", "echoes
// neither" are all explored), optionally interleaved with a heartbeat, timeouts released by the
// harness; the platform serial counter starts from a symbolic value (wrap included).
func VerifC12Matching() {
	vrt_ClockFrozen()
	g := &GoJT808{}
	sm := newSessionManager(func(m *Message) (string, bool) { return m.JTMessage.Header.TerminalPhoneNo, true })
	go sm.run()
	ev := &vRecorder{}
	conn := vrt_NewTCPConn()
	vrt_ConnLive(conn)
	c := newConnection(conn, g.createDefaultHandle(), ev, true, sm.join, sm.leave)
	go c.reader()
	go c.write()
	// the terminal comes online with a heartbeat (answered with platform serial `pre`)
	hb := vGenFrame("hb", 0x0002, false, 0, 0)
	vNoSpecialChecksum(hb)
	pre := vrt_U16("platformSerial")
	vrt_Assume(byte(pre>>8) != 0x7e && byte(pre>>8) != 0x7d && byte(pre) != 0x7e && byte(pre) != 0x7d)
	c.platformSerialNumber = pre
	vrt_ConnPushRead(conn, hb.bytes())
	vrt_Yield()
	key := jt808BcdString(hb.phone)
	nCallers := 1 + vrt_Choose("callers", 2)
	cmds := []uint16{0x8104, 0x8801}
	res := make([]*Message, nCallers)
	done := make([]bool, nCallers)
	for i := 0; i < nCallers; i++ {
		i := i
		body := vrt_Bytes("cmdBody", 1)
		vrtKSpecial("cmdsp", 0, vrtEscSpecial, body)
		go func() {
			// the second caller leaves the duration at 0 (= the default of 3 s)
			res[i] = sm.write(NewActiveMessage(key, consts.JT808CommandType(cmds[i]), body, time.Duration(1-i)*1500*time.Millisecond))
			done[i] = true
		}()
		vrt_Yield()
	}
	// each command written exactly once, after the heartbeat reply, with consecutive fresh serials
	frames := c06Frames(vrt_ConnWritten(conn))
	vrt_Assert(len(frames) == 1+nCallers, "each command must be written exactly once")
	serialOf := func(i int) uint16 { return pre + 1 + uint16(i) }
	for i := 0; i < nCallers; i++ {
		vrt_Assert(!done[i], "caller returned before any response or timeout")
	}
	// terminal behaviour: a response with a symbolic echoed serial, optionally after a heartbeat
	if vrt_Choose("heartbeatFirst", 2) == 1 {
		hb2 := &vFrame{id: 0x0002, phone: hb.phone, serial: 2}
		vrt_ConnPushRead(conn, hb2.bytes())
		vrt_Yield()
		vrt_Assert(len(c06Frames(vrt_ConnWritten(conn))) == 2+nCallers, "ordinary traffic must still be answered while commands are outstanding")
		vrt_Cover("heartbeat-in-between", true)
	}
	esb := vrt_Bytes("echoedSerial", 2)
	vrtKSpecial("essp", 0, vrtEscSpecial, esb)
	es := uint16(esb[0])<<8 | uint16(esb[1])
	rkind := vrt_Choose("responseType", 5) // 0x0001, 0x0104, 0x0805, 0x1205, 0x1206
	rsp := c12Response(rkind, hb.phone, 3, es, 0x8104)
	vNoSpecialChecksum(rsp)
	vrt_ConnPushRead(conn, rsp.bytes())
	vrt_Yield()
	matched := -1
	for i := 0; i < nCallers; i++ {
		if es == serialOf(i) {
			matched = i
		}
	}
	for i := 0; i < nCallers; i++ {
		if i == matched {
			vrt_Assert(done[i] && res[i] != nil && res[i].ExtensionFields.Err == nil, "caller did not receive the response that echoes its command's serial")
			vrt_Assert(res[i].ExtensionFields.PlatformSeq == serialOf(i), "caller received a response matched to another serial")
		} else {
			vrt_Assert(!done[i], "caller received a response that does not echo its own command's serial")
		}
	}
	vrt_Cover("response-0x1206", rkind == 4 && matched == 0)
	vrt_Cover("matched-first", matched == 0)
	vrt_Cover("matched-second", matched == 1)
	vrt_Cover("matched-none", matched == -1)
	// timeouts fire for whoever is still waiting: exactly one result per call
	vrt_Wake()
	vrt_Yield()
	for i := 0; i < nCallers; i++ {
		vrt_Assert(done[i] && res[i] != nil, "call did not return after its timeout")
		if i != matched {
			vrt_Assert(res[i].ExtensionFields.Err != nil && errors.Is(res[i].ExtensionFields.Err, ErrWriteDataOverTime), "unanswered call must return the timeout error")
		}
	}
	vrt_Cover("serial-wrap", pre >= 0xfffe)
}
