//go:build verif

package service

import (
	"errors"
	"time"

	"github.com/cuteLittleDevil/go-jt808/shared/consts"
)

func init() {
	vrtHarnesses["VerifC12Matching"] = VerifC12Matching
	vrtHarnesses["VerifC12Schedules"] = VerifC12Schedules
}

// c12Response: a minimal well-formed terminal response of the given type echoing serial es.
func c12Response(kind int, phone []byte, serial uint16, es uint16, id uint16) *vFrame {
	hi, lo := byte(es>>8), byte(es)
	switch kind {
	case 1: // 0x0104 parameter query response: serial, count 0
		return &vFrame{id: 0x0104, phone: phone, serial: serial, body: []byte{hi, lo, 0}}
	case 2: // 0x0805 camera response: serial, result, 0 IDs
		return &vFrame{id: 0x0805, phone: phone, serial: serial, body: []byte{hi, lo, 0, 0, 0}}
	case 3: // 0x1205 resource list: serial, 0 entries
		return &vFrame{id: 0x1205, phone: phone, serial: serial, body: []byte{hi, lo, 0, 0, 0, 0}}
	case 4: // 0x1206 upload complete notice: serial, result
		return &vFrame{id: 0x1206, phone: phone, serial: serial, body: []byte{hi, lo, 0}}
	}
	return &vFrame{id: 0x0001, phone: phone, serial: serial, body: []byte{hi, lo, byte(id >> 8), byte(id), 0}}
}

// VerifC12Matching: one online terminal, up to two callers with outstanding commands, terminal
// responses whose echoed serial is symbolic (so "echoes command 1", "echoes command 2", "echoes
// neither" are all explored), optionally interleaved with a heartbeat, timeouts released by the
// harness; the platform serial counter starts from a symbolic value (wrap included).
func VerifC12Matching() {
	vrt_ClockFrozen()
	g := &GoJT808{}
	sm := newSessionManager(func(m *Message) (string, bool) { return m.JTMessage.Header.TerminalPhoneNo, true })
	go sm.run()
	ev := &vRecorder{}
	conn := vrt_NewTCPConn()
	vrt_ConnLive(conn)
	c := newConnection(conn, g.createDefaultHandle(), ev, true, sm.join, sm.leave)
	go c.reader()
	go c.write()
	// the terminal comes online with a heartbeat (answered with platform serial `pre`)
	hb := vGenFrame("hb", 0x0002, false, 0, 0)
	vNoSpecialChecksum(hb)
	pre := vrt_U16("platformSerial")
	vrt_Assume(byte(pre>>8) != 0x7e && byte(pre>>8) != 0x7d && byte(pre) != 0x7e && byte(pre) != 0x7d)
	c.platformSerialNumber = pre
	vrt_ConnPushRead(conn, hb.bytes())
	vrt_Yield()
	key := jt808BcdString(hb.phone)
	nCallers := 1 + vrt_Choose("callers", 2)
	cmds := []uint16{0x8104, 0x8801}
	res := make([]*Message, nCallers)
	done := make([]bool, nCallers)
	for i := 0; i < nCallers; i++ {
		i := i
		body := vrt_Bytes("cmdBody", 1)
		vrtKSpecial("cmdsp", 0, vrtEscSpecial, body)
		go func() {
			// the second caller leaves the duration at 0 (= the default of 3 s)
			res[i] = sm.write(NewActiveMessage(key, consts.JT808CommandType(cmds[i]), body, time.Duration(1-i)*1500*time.Millisecond))
			done[i] = true
		}()
		vrt_Yield()
	}
	// each command written exactly once, after the heartbeat reply, with consecutive fresh serials
	frames := c06Frames(vrt_ConnWritten(conn))
	vrt_Assert(len(frames) == 1+nCallers, "each command must be written exactly once")
	serialOf := func(i int) uint16 { return pre + 1 + uint16(i) }
	for i := 0; i < nCallers; i++ {
		vrt_Assert(!done[i], "caller returned before any response or timeout")
	}
	// terminal behaviour: a response with a symbolic echoed serial, optionally after a heartbeat
	if vrt_Choose("heartbeatFirst", 2) == 1 {
		hb2 := &vFrame{id: 0x0002, phone: hb.phone, serial: 2}
		vrt_ConnPushRead(conn, hb2.bytes())
		vrt_Yield()
		vrt_Assert(len(c06Frames(vrt_ConnWritten(conn))) == 2+nCallers, "ordinary traffic must still be answered while commands are outstanding")
		vrt_Cover("heartbeat-in-between", true)
	}
	esb := vrt_Bytes("echoedSerial", 2)
	vrtKSpecial("essp", 0, vrtEscSpecial, esb)
	es := uint16(esb[0])<<8 | uint16(esb[1])
	rkind := vrt_Choose("responseType", 5) // 0x0001, 0x0104, 0x0805, 0x1205, 0x1206
	rsp := c12Response(rkind, hb.phone, 3, es, 0x8104)
	vNoSpecialChecksum(rsp)
	vrt_ConnPushRead(conn, rsp.bytes())
	vrt_Yield()
	matched := -1
	for i := 0; i < nCallers; i++ {
		if es == serialOf(i) {
			matched = i
		}
	}
	for i := 0; i < nCallers; i++ {
		if i == matched {
			vrt_Assert(done[i] && res[i] != nil && res[i].ExtensionFields.Err == nil, "caller did not receive the response that echoes its command's serial")
			vrt_Assert(res[i].ExtensionFields.PlatformSeq == serialOf(i), "caller received a response matched to another serial")
		} else {
			vrt_Assert(!done[i], "caller received a response that does not echo its own command's serial")
		}
	}
	vrt_Cover("response-0x1206", rkind == 4 && matched == 0)
	vrt_Cover("matched-first", matched == 0)
	vrt_Cover("matched-second", matched == 1)
	vrt_Cover("matched-none", matched == -1)
	// timeouts fire for whoever is still waiting: exactly one result per call
	vrt_Wake()
	vrt_Yield()
	for i := 0; i < nCallers; i++ {
		vrt_Assert(done[i] && res[i] != nil, "call did not return after its timeout")
		if i != matched {
			vrt_Assert(res[i].ExtensionFields.Err != nil && errors.Is(res[i].ExtensionFields.Err, ErrWriteDataOverTime), "unanswered call must return the timeout error")
		}
	}
	vrt_Cover("serial-wrap", pre >= 0xfffe)
}

// VerifC12Schedules: one online terminal, two callers with commands of different types, a
// heartbeat and two general responses whose echoed serials are symbolic (0..3: the first command's,
// the second's, the heartbeat reply's, none), all issued back to back or one after the other, under
// the default schedule and every schedule within the deviation bound (fork points as in C13).
// Checked on the final quiescent state, after every timer has expired: each command was written
// exactly once, with distinct serials; each call returned exactly once; a call that returned
// without error holds the response that echoes the serial its own command was written with; a call
// that returned an error holds the timeout error; the heartbeat was answered.
func VerifC12Schedules() {
	vrt_ClockFrozen()
	vrt_Sched(0)
	g := &GoJT808{}
	sm := newSessionManager(func(m *Message) (string, bool) { return m.JTMessage.Header.TerminalPhoneNo, true })
	vrt_Go(sm.run)
	ev := &vRecorder{}
	conn := vrt_NewTCPConn()
	vrt_ConnLive(conn)
	c := newConnection(conn, g.createDefaultHandle(), ev, true, sm.join, sm.leave)
	vrt_Go(c.reader)
	vrt_Go(c.write)
	phone := []byte{0x01, 0x23, 0x45, 0x67, 0x89, 0x03}
	key := jt808BcdString(phone)
	vrt_ConnPushRead(conn, (&vFrame{id: 0x0002, phone: phone, serial: 1}).bytes())
	vrt_Quiesce()
	k := 1
	if vrt_Tier() > 0 {
		k = 2
	}
	backToBack := vrt_Choose("backToBack", 2) == 1
	es := vrt_Bytes("echoed", 2)
	vrt_Assume(es[0] < 4 && es[1] < 4)
	vrt_Sched(k)
	cmds := []uint16{0x8104, 0x8801}
	res := make([]*Message, 2)
	returns := make([]int, 2)
	settle := func() {
		if !backToBack {
			vrt_Yield()
		}
	}
	for i := 0; i < 2; i++ {
		i := i
		vrt_Go(func() {
			res[i] = sm.write(NewActiveMessage(key, consts.JT808CommandType(cmds[i]), []byte{byte(i)}, time.Duration(1-i)*1500*time.Millisecond))
			returns[i]++
		})
		settle()
	}
	vrt_ConnPushRead(conn, (&vFrame{id: 0x0001, phone: phone, serial: 2, body: []byte{0, es[0], 0x81, 0x04, 0}}).bytes())
	settle()
	vrt_ConnPushRead(conn, (&vFrame{id: 0x0002, phone: phone, serial: 3}).bytes())
	settle()
	vrt_ConnPushRead(conn, (&vFrame{id: 0x0001, phone: phone, serial: 4, body: []byte{0, es[1], 0x88, 0x01, 0}}).bytes())
	vrt_Quiesce()
	vrt_Wake()
	vrt_Quiesce()
	// what went out on the socket
	serialOf := []int{-1, -1}
	written := []int{0, 0}
	generals := 0
	for _, fr := range c06Frames(vrt_ConnWritten(conn)) {
		ok, id, _, serial, _ := c06Unframe(fr, false)
		vrt_Assert(ok, "the server wrote a frame that does not decode")
		for i := 0; i < 2; i++ {
			if id == cmds[i] {
				written[i]++
				serialOf[i] = int(serial)
			}
		}
		if id == 0x8001 {
			generals++
		}
	}
	vrt_Assert(written[0] == 1 && written[1] == 1, "a command was not written exactly once")
	vrt_Assert(serialOf[0] != serialOf[1], "two commands were written with the same platform serial")
	vrt_Assert(generals == 2, "ordinary traffic (heartbeats) was not answered exactly once each while commands were outstanding")
	for i := 0; i < 2; i++ {
		vrt_Assert(returns[i] == 1 && res[i] != nil, "a call did not return exactly once")
		if res[i].ExtensionFields.Err == nil {
			vrt_Assert(int(res[i].ExtensionFields.PlatformSeq) == serialOf[i], "a caller received a response matched to another command's serial")
			echoes := (int(es[0]) == serialOf[i]) || (int(es[1]) == serialOf[i])
			vrt_Assert(echoes, "a caller received a response although no response echoed its command's serial")
			vrt_Cover("answered", true)
		} else {
			vrt_Assert(errors.Is(res[i].ExtensionFields.Err, ErrWriteDataOverTime), "an unanswered call must return the timeout error")
			vrt_Cover("timed-out", true)
		}
	}
	vrt_Cover("back-to-back", backToBack)
}
