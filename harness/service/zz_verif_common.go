//go:build verif

package service

import (
	"time"
)

// vGenFrame: a frame with symbolic serial and body; the header bytes other than the body are kept
// free of escape bytes unless the harness says otherwise, and the phone keeps one rendering shape.
func vGenFrame(label string, id uint16, v2019 bool, bodyLen int, bodySpecials int) *vFrame {
	f := &vFrame{id: id, v2019: v2019}
	n := 6
	if v2019 {
		n = 10
	}
	f.phone = vrt_Bytes(label+".phone", n)
	vrt_Assume(f.phone[0]>>4 != 0)
	sb := vrt_Bytes(label+".serial", 2)
	f.serial = uint16(sb[0])<<8 | uint16(sb[1])
	vrtKSpecial(label+".hdr", 0, vrtEscSpecial, f.phone, sb)
	f.body = vrt_Bytes(label+".body", bodyLen)
	vrtKSpecial(label+".bodysp", bodySpecials, vrtEscSpecial, f.body)
	return f
}

// vNoSpecialChecksum keeps the checksum byte of a frame from being an escape byte (used where the
// number of escape sequences must stay fixed).
func vNoSpecialChecksum(f *vFrame) {
	p := f.payload()
	c := p[len(p)-1]
	vrt_Assume(c != 0x7e && c != 0x7d)
}

// ---- snapshots of delivered messages ----

type vSnap struct {
	id       uint16
	serial   uint16
	total    uint16
	number   uint16
	phone    string
	body     []byte
	raw      []byte
	complete bool
}

func vSnapOf(m *Message) vSnap {
	return vSnap{id: m.JTMessage.Header.ID, serial: m.JTMessage.Header.SerialNumber, total: m.JTMessage.Header.SubPackageSum,
		number: m.JTMessage.Header.SubPackageNo, phone: m.JTMessage.Header.TerminalPhoneNo,
		body: append([]byte{}, m.JTMessage.Body...), raw: append([]byte{}, m.ExtensionFields.TerminalData...),
		complete: m.ExtensionFields.SubcontractComplete}
}

func vSnapEq(a, b vSnap) bool {
	return vrt_And(vrt_And(a.id == b.id && a.serial == b.serial && a.total == b.total && a.number == b.number, vrt_StrEq(a.phone, b.phone)),
		vrt_And(vrt_BytesEq(a.body, b.body), vrt_BytesEq(a.raw, b.raw)))
}

// vReader mimics connection.reader's use of the parser: one reused 1023-byte buffer, parse per read.
type vReader struct {
	buf  []byte
	pack *packageParse
}

func vNewReader() *vReader { return &vReader{buf: make([]byte, 1023), pack: newPackageParse()} }

func (r *vReader) read(chunk []byte) ([]*Message, error) {
	n := copy(r.buf, chunk)
	return r.pack.parse(r.buf[:n])
}

// vNow is the harness's own clock read (the engine's symbolic clock; the script's clock natively).
func vNow() time.Time { return time.Now() }

// ---- native clock for replays (the engine models time.Now itself) ----

func vrtNow() time.Time {
	if vrtPeekKind() != "clock" {
		// frozen clock (vrt_ClockFrozen): one fixed instant, 2024-01-01 00:00:00 UTC
		return time.Unix(63839664000-62135596800, 0).UTC()
	}
	in := vrtNext("time.Now", "clock")
	return time.Unix(int64(in.Val)-62135596800, in.N).UTC()
}
