//go:build verif

package service

import (
	"encoding/hex"

	"github.com/cuteLittleDevil/go-jt808/shared/consts"
	"github.com/cuteLittleDevil/go-jt808/terminal"
)

func init() {
	vrtHarnesses["VerifC20Reply"] = VerifC20Reply
}

// VerifC20Reply: for every reply-bearing command the simulator generates, the reply it predicts for
// a platform serial equals the bytes the real server writes for that frame on a connection whose
// counter has that value.
func VerifC20Reply() {
	vrt_ClockFrozen()
	vers := []consts.ProtocolVersionType{consts.JT808Protocol2013, consts.JT808Protocol2019}
	ver := vers[vrt_Choose("version", 2)]
	cmds := []consts.JT808CommandType{consts.T0002HeartBeat, consts.T0100Register, consts.T0102RegisterAuth, consts.T0200LocationReport,
		consts.T0704LocationBatchUpload, consts.T1210AlarmAttachInfoMessage, consts.T1211FileInfoUpload, consts.T1212FileUploadComplete}
	cmd := cmds[vrt_Choose("command", len(cmds))]
	d := []int{1, 12}[vrt_Choose("digits", 2)]
	e := vrt_String("phoneEnds", 1+vrt_Tier()*3)
	for i := 0; i < len(e); i++ {
		vrt_Assume(e[i] >= '0' && e[i] <= '9')
	}
	phone := e
	if d == 12 {
		phone = "13800000" + e + "555"[:4-len(e)]
	}
	sim := terminal.New(terminal.WithHeader(ver, phone))
	frame := sim.CreateDefaultCommandData(cmd)
	seq := vrt_U16("platformSerial")
	predicted := sim.ExpectedReply(seq, hex.EncodeToString(frame))
	ev := &vRecorder{}
	conn := vrt_NewTCPConn()
	vrt_ConnLive(conn)
	c := newConnection(conn, (&GoJT808{}).createDefaultHandle(), ev, true,
		func(message *Message, activeChan chan<- *ActiveMessage) (string, error) {
			return message.JTMessage.Header.TerminalPhoneNo, nil
		}, func(key string) {})
	c.platformSerialNumber = seq
	go c.reader()
	go c.write()
	vrt_ConnPushRead(conn, frame)
	vrt_Yield()
	got := vrt_ConnWritten(conn)
	vrt_Assert(vrt_BytesEq(got, predicted), "the reply the simulator predicts differs from the reply the server sends")
	vrt_Cover("predicted-reply", len(got) > 0)
}
