//go:build verif

package service

func init() {
	vrtHarnesses["VerifC04Cuts"] = VerifC04Cuts
	vrtHarnesses["VerifC04Long"] = VerifC04Long
	vrtHarnesses["VerifC04Three"] = VerifC04Three
	vrtHarnesses["VerifC04Dense"] = VerifC04Dense
}

// VerifC04Dense: an escape-dense frame of maximal size (every body byte needs escaping, so the
// escaped frame is about twice the read buffer) followed by two short frames, delivered in full
// 1023-byte reads, in reads of a symbolic-free smaller size, and frame by frame.
func VerifC04Dense() {
	bl := []int{1023, 1000, 600}[vrt_Choose("bodyLen", 3)]
	f1 := vGenFrame("dense", 0x0200, false, 0, 0)
	f1.body = make([]byte, bl)
	for i := range f1.body {
		f1.body[i] = 0x7d
	}
	f1.body[0] = 0x7e
	vNoSpecialChecksum(f1)
	f2 := vGenFrame("b", 0x0002, false, 0, 0)
	vNoSpecialChecksum(f2)
	f3 := vGenFrame("c", 0x0100, false, 2, 0)
	vNoSpecialChecksum(f3)
	stream := append(append(append([]byte{}, f1.bytes()...), f2.bytes()...), f3.bytes()...)
	size := []int{1023, 1000, 512, 700}[vrt_Choose("readSize", 4)]
	r := vNewReader()
	var got []vSnap
	for off := 0; off < len(stream); off += size {
		end := off + size
		if end > len(stream) {
			end = len(stream)
		}
		msgs, err := r.read(stream[off:end])
		vrt_Assert(err == nil, "valid stream reported as an error")
		for _, m := range msgs {
			got = append(got, vSnapOf(m))
		}
	}
	vrt_Assert(len(got) == 3, "three frames must give three messages")
	vrt_Assert(got[0].id == 0x0200 && vrt_BytesEq(got[0].body, f1.body) && got[1].id == 0x0002 && got[1].serial == f2.serial && got[2].id == 0x0100 && vrt_BytesEq(got[2].body, f3.body), "messages differ or order changed")
	vrt_Cover("escaped-frame-twice-the-buffer", len(f1.bytes()) > 2000)
}

// VerifC04Three: three escape-free frames of unequal length, every 1-cut and 2-cut of the stream:
// the interaction of the single-frame fast path with the buffered path across three reads.
func VerifC04Three() {
	var frames []*vFrame
	var stream []byte
	var ends []int
	for i, bl := range []int{3, 0, 1} {
		f := vGenFrame("f", []uint16{0x0200, 0x0002, 0x0100}[i], false, bl, 0)
		vNoSpecialChecksum(f)
		frames = append(frames, f)
		stream = append(stream, f.bytes()...)
		ends = append(ends, len(stream))
	}
	n := len(stream)
	c1 := 1 + vrt_Choose("cut1", n)
	c2 := c1 + vrt_Choose("cut2", n-c1+1)
	pieces := [][]byte{stream[:c1]}
	offs := []int{c1}
	if c2 > c1 {
		pieces = append(pieces, stream[c1:c2])
		offs = append(offs, c2)
	}
	if n > c2 {
		pieces = append(pieces, stream[c2:])
		offs = append(offs, n)
	}
	r := vNewReader()
	var got []vSnap
	for j, p := range pieces {
		msgs, err := r.read(p)
		vrt_Assert(err == nil, "valid stream reported as an error")
		for _, msg := range msgs {
			got = append(got, vSnapOf(msg))
		}
		want := 0
		for _, e := range ends {
			if e <= offs[j] {
				want++
			}
		}
		vrt_Assert(len(got) == want, "a message was delivered before its closing delimiter arrived, or withheld after it")
	}
	vrt_Assert(len(got) == 3, "number of messages differs from number of frames")
	for i, f := range frames {
		vrt_Assert(got[i].id == f.id && got[i].serial == f.serial && vrt_BytesEq(got[i].body, f.body), "message differs or order changed")
	}
	vrt_Cover("first-frame-split-then-two-coalesced", c1 < ends[0] && c2 == ends[0])
}

// VerifC04Cuts: a stream of m valid frames cut into reads at every 1-cut and 2-cut position; the
// extracted messages (count, order, ID, serial, body) do not depend on the cuts and each message is
// delivered by the read that brings its closing delimiter.
func VerifC04Cuts() {
	maxFrames, ksp := 2, 1 // three frames: VerifC04Three
	m := 1 + vrt_Choose("frames", maxFrames)
	var frames []*vFrame
	var stream []byte
	var ends []int
	for i := 0; i < m; i++ {
		// quick tier: layouts alternate (2013, 2019, ...) and body lengths come from a short list;
		// thorough tier: both layouts and every length for every frame
		v2019 := i%2 == 1
		bl := []int{0, 2}[vrt_Choose("bodyLen", 2)]
		if i > 0 {
			bl = 1
		}
		if vrt_Tier() > 0 && i == 0 {
			// thorough: the first frame also with a 3-byte body (every layout and length for every frame
			// ran past 40 minutes)
			bl = []int{0, 2, 3}[vrt_Choose("bodyLenT", 3)]
		}
		idb := vrt_Bytes("id", 2)
		vrtKSpecial("idsp", 0, vrtEscSpecial, idb)
		f := vGenFrame("f", uint16(idb[0])<<8|uint16(idb[1]), v2019, bl, ksp)
		frames = append(frames, f)
		stream = append(stream, f.bytes()...)
		ends = append(ends, len(stream))
	}
	vrt_Observe("stream", stream)
	n := len(stream)
	// cut positions 0 < c1 <= c2 <= n (c1 == c2 or c2 == n degenerate to fewer reads)
	c1 := 1 + vrt_Choose("cut1", n)
	c2 := c1 + vrt_Choose("cut2", n-c1+1)
	pieces := [][]byte{stream[:c1]}
	offs := []int{c1}
	if c2 > c1 {
		pieces = append(pieces, stream[c1:c2])
		offs = append(offs, c2)
	}
	if n > c2 {
		pieces = append(pieces, stream[c2:])
		offs = append(offs, n)
	}
	r := vNewReader()
	var got []vSnap
	for j, p := range pieces {
		msgs, err := r.read(p)
		vrt_Assert(err == nil, "valid stream reported as an error")
		for _, msg := range msgs {
			got = append(got, vSnapOf(msg))
		}
		want := 0
		for _, e := range ends {
			if e <= offs[j] {
				want++
			}
		}
		vrt_Assert(len(got) == want, "a message was delivered before its closing delimiter arrived, or withheld after it")
	}
	vrt_Assert(len(got) == m, "number of messages differs from number of frames")
	for i, f := range frames {
		vrt_Assert(got[i].id == f.id && got[i].serial == f.serial, "message ID/serial differs or order changed")
		vrt_Assert(vrt_BytesEq(got[i].body, f.body), "message body differs")
	}
	vrt_Cover("three-reads", len(pieces) == 3)
	vrt_Cover("one-read", len(pieces) == 1)
	vrt_Cover("cut-inside-escape", c1 >= 2 && stream[c1-1] == 0x7d)
	vrt_Cover("two-frames", m >= 2)
}

// VerifC04Long: one frame whose escaped form exceeds the 1023-byte read buffer, followed by a short
// frame; reads are cut at the buffer boundary and around the frame end.
func VerifC04Long() {
	lens := []int{1010, 1023}
	if vrt_Tier() > 0 {
		lens = []int{1005, 1010, 1015, 1022, 1023}
	}
	bl := lens[vrt_Choose("bodyLen", len(lens))]
	f1 := vGenFrame("long", 0x0200, false, bl, 0)
	// two escape bytes at the ends of the body so that the escaped frame grows
	spec := vrt_Bytes("ends", 2)
	vrt_Assume(vrtEscSpecial(spec[0]) && vrtEscSpecial(spec[1]))
	f1.body[0], f1.body[bl-1] = spec[0], spec[1]
	vNoSpecialChecksum(f1)
	f2 := vGenFrame("short", 0x0002, false, 0, 0)
	vNoSpecialChecksum(f2)
	s1, s2 := f1.bytes(), f2.bytes()
	stream := append(append([]byte{}, s1...), s2...)
	n := len(stream)
	// first read fills the buffer (or less), the rest arrives in one or two more reads
	first := 1023 - vrt_Choose("firstShort", 3)
	if first > n {
		first = n
	}
	mid := first + vrt_Choose("second", 4)
	if mid > n {
		mid = n
	}
	pieces := [][]byte{stream[:first]}
	if mid > first {
		pieces = append(pieces, stream[first:mid])
	}
	if n > mid {
		rest := stream[mid:]
		for len(rest) > 1023 {
			pieces = append(pieces, rest[:1023])
			rest = rest[1023:]
		}
		pieces = append(pieces, rest)
	}
	r := vNewReader()
	var got []vSnap
	for _, p := range pieces {
		msgs, err := r.read(p)
		vrt_Assert(err == nil, "valid long stream reported as an error")
		for _, msg := range msgs {
			got = append(got, vSnapOf(msg))
		}
	}
	vrt_Assert(len(got) == 2, "long frame + short frame must give two messages")
	vrt_Assert(got[0].id == 0x0200 && got[0].serial == f1.serial && vrt_BytesEq(got[0].body, f1.body), "long message differs")
	vrt_Assert(got[1].id == 0x0002 && got[1].serial == f2.serial, "short message differs")
	vrt_Cover("exceeds-buffer", len(s1) > 1023)
}
