//go:build verif

package service

import (
	"sort"

	"github.com/cuteLittleDevil/go-jt808/shared/consts"
)

func init() {
	vrtHarnesses["VerifC10Service"] = VerifC10Service
}

// vParsing is the README pattern: a per-connection handler that parses every message body it is
// shown (and renders it), on top of the default reply behaviour.
type vParsing struct {
	JT808Handler
	parsed int
}

func (v *vParsing) OnReadExecutionEvent(msg *Message) {
	if v.JT808Handler.Parse(msg.JTMessage) == nil {
		v.parsed++
		if s, ok := v.JT808Handler.(interface{ String() string }); ok {
			_ = s.String()
		}
	}
}
func (v *vParsing) OnWriteExecutionEvent(msg Message) {}

func c10Handles(parsing bool) map[consts.JT808CommandType]Handler {
	h := (&GoJT808{}).createDefaultHandle()
	if !parsing {
		return h
	}
	out := map[consts.JT808CommandType]Handler{}
	for k, v := range h {
		out[k] = &vParsing{JT808Handler: v.(*defaultHandle).JT808Handler}
	}
	return out
}

func c10AllIDs() []uint16 {
	var ids []uint16
	for k := range (&GoJT808{}).createDefaultHandle() {
		ids = append(ids, uint16(k))
	}
	sort.Slice(ids, func(i, j int) bool { return ids[i] < ids[j] })
	return append(ids, 0x0F0F)
}

// VerifC10Service: the JT808 server's per-connection code (reader, writer, frame extractor,
// reassembly, reply path, default or body-parsing handlers) on hostile input: arbitrary bytes,
// valid framing around adversarial header fields (impossible package numbers, any supported ID)
// and bodies, with the peer disconnecting (EOF or reset) after any number of reads. A panic in any
// goroutine (there is no recover in the server) or a non-terminating loop is a violation.
func VerifC10Service() {
	vrt_ClockFrozen()
	parsing := vrt_Choose("handlers", 2) == 1
	ev := &vRecorder{}
	conn := vrt_NewTCPConn()
	vrt_ConnLive(conn)
	c := newConnection(conn, c10Handles(parsing), ev, true,
		func(message *Message, activeChan chan<- *ActiveMessage) (string, error) {
			return message.JTMessage.Header.TerminalPhoneNo, nil
		}, func(key string) {})
	go c.reader()
	go c.write()
	nReads := vrt_Choose("reads", 3) // 0: connect-and-close
	ids := c10AllIDs()
	for r := 0; r < nReads; r++ {
		kind := 0
		if r == 0 {
			kind = vrt_Choose("chunkKind", 4)
			if kind == 3 {
				kind = 4
			}
		} else {
			// the second read is a heartbeat or half a frame (the first read has the variety; giving the
			// second read every kind as well does not finish within the thorough budget)
			kind = 2 + vrt_Choose("secondKind", 2)
		}
		switch kind {
		case 4: // two sub-package frames of one message ID that disagree about the total
			f1 := vGenFrame("sp1", 0x0801, false, 1, 0)
			f1.total, f1.number = uint16(1+vrt_Choose("total1", 2)), 1
			vNoSpecialChecksum(f1)
			f2 := &vFrame{id: 0x0801, phone: f1.phone, serial: f1.serial, body: []byte{7}}
			f2.total = uint16(1 + vrt_Choose("total2", 3))
			nb := vrt_Bytes("number2", 2)
			vrtKSpecial("n2sp", 0, vrtEscSpecial, nb)
			f2.number = uint16(nb[0])<<8 | uint16(nb[1])
			vNoSpecialChecksum(f2)
			vrt_ConnPushRead(conn, append(f1.bytes(), f2.bytes()...))
		case 3:
			f := vGenFrame("hb", 0x0002, false, 0, 0)
			vrt_ConnPushRead(conn, f.bytes())
		case 0: // arbitrary bytes
			maxL := 6
			if vrt_Tier() > 0 {
				maxL = 6
			}
			vrt_ConnPushRead(conn, vrt_Bytes("raw", 1+vrt_Choose("rawLen", maxL)))
		case 1: // a valid frame with adversarial header fields and an arbitrary short body
			id := ids[vrt_Choose("id", len(ids))]
			f := vGenFrame("adv", id, vrt_Choose("v2019", 2) == 1, 2*vrt_Choose("bodyLen", 2), 0)
			if vrt_Choose("fragmented", 2) == 1 {
				tn := vrt_Bytes("totalNumber", 4)
				vrtKSpecial("tnsp", 0, vrtEscSpecial, tn)
				f.total = uint16(tn[0])<<8 | uint16(tn[1])
				f.number = uint16(tn[2])<<8 | uint16(tn[3])
				vrt_Assume(f.total != 0 && f.total <= 3) // the announced total sizes an allocation (resource exhaustion is outside the claim)
			}
			if vrt_Tier() == 0 {
				vNoSpecialChecksum(f)
			}
			vrt_ConnPushRead(conn, f.bytes())
		case 2: // half a frame
			f := vGenFrame("half", 0x0200, false, 2, 0)
			vNoSpecialChecksum(f)
			b := f.bytes()
			at := []int{1, len(b) / 2, len(b) - 1}[vrt_Choose("halfAt", 3)]
			if vrt_Tier() > 1 {
				at = 1 + vrt_Choose("halfAtT", len(b)-1)
			}
			vrt_ConnPushRead(conn, b[:at])
		}
		vrt_Yield()
	}
	if vrt_Choose("disconnect", 2) == 0 {
		vrt_ConnEOF(conn)
	} else {
		c.conn.Close() // reset seen by the reader as a closed connection
	}
	vrt_Yield()
	vrt_Assert(len(ev.leaves) == 1, "the connection's end was not reported exactly once")
	vrt_Cover("connect-and-close", nReads == 0)
	vrt_Cover("two-reads", nReads == 2)
	vrt_Cover("parsing-handlers", parsing)
}
