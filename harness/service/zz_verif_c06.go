//go:build verif

package service

import (
	"sort"

)

func init() {
	vrtHarnesses["VerifC06OneReply"] = VerifC06OneReply
	vrtHarnesses["VerifC06Conversation"] = VerifC06Conversation
}

// c06Reply: the standard's table of automatic replies (DESIGN appendix C.2).
// kind: 0 none, 1 general response 0x8001, 2 registration response 0x8100, 3 multimedia 0x8800, 4 0x9212
func c06ReplyKind(id uint16) int {
	switch id {
	case 0x0002, 0x0200, 0x0704, 0x0800, 0x1005, 0x1210, 0x1211, 0x0102, 0x1003:
		return 1
	case 0x0100:
		return 2
	case 0x0801:
		return 3
	case 0x1212:
		return 4
	}
	return 0 // responses (0x0001, 0x0104, 0x0805, 0x1205, 0x1206) and unsupported IDs
}

func c06TerminalIDs() []uint16 {
	var ids []uint16
	for k := range (&GoJT808{}).createDefaultHandle() {
		if uint16(k) < 0x8000 {
			ids = append(ids, uint16(k))
		}
	}
	sort.Slice(ids, func(i, j int) bool { return ids[i] < ids[j] })
	return ids
}

// c06Frames splits a byte stream written by the server into frames (delimiter to delimiter).
func c06Frames(w []byte) [][]byte {
	var out [][]byte
	start := -1
	for i, b := range w {
		if b != 0x7e {
			continue
		}
		if start < 0 {
			start = i
		} else {
			out = append(out, w[start:i+1])
			start = -1
		}
	}
	return out
}

// c06Unframe is the reference decoding of a server frame: unescape, check, split header/body
// (the platform always answers without sub-package fields).
func c06Unframe(fr []byte, v2019 bool) (ok bool, id uint16, phone []byte, serial uint16, body []byte) {
	var p []byte
	for i := 1; i < len(fr)-1; i++ {
		if fr[i] == 0x7d && i+1 < len(fr)-1 {
			i++
			if fr[i] == 0x02 {
				p = append(p, 0x7e)
			} else {
				p = append(p, 0x7d)
			}
		} else {
			p = append(p, fr[i])
		}
	}
	hl, ps, pl := 12, 4, 6
	if v2019 {
		hl, ps, pl = 17, 5, 10
	}
	if len(p) < hl+1 {
		return false, 0, nil, 0, nil
	}
	var x byte
	for _, b := range p {
		x ^= b
	}
	prop := uint16(p[2])<<8 | uint16(p[3])
	if x != 0 || int(prop&0x3ff) != len(p)-hl-1 || (prop&0x4000 != 0) != v2019 || prop&0x2000 != 0 {
		return false, 0, nil, 0, nil
	}
	return true, uint16(p[0])<<8 | uint16(p[1]), p[ps : ps+pl], uint16(p[ps+pl])<<8 | uint16(p[ps+pl+1]), p[hl : len(p)-1]
}

func c06Body(id uint16, v2019 bool) []byte {
	// body sizes the reply computation distinguishes
	n := vrt_Choose("bodyLen", 2)
	switch id {
	case 0x0801:
		n = 36 + n
	case 0x0102:
		if v2019 {
			n = 36 + 2*n // AuthCodeLen + 15 + 20, with or without a 2-byte code
		} else {
			n = 1 + n
		}
	}
	b := vrt_Bytes("body", n)
	vrtKSpecial("bodysp", 0, vrtEscSpecial, b)
	if id == 0x0102 && v2019 {
		vrt_Assume(int(b[0]) == n-36)
	}
	return b
}

// c06Expect asserts that fr is the prescribed reply to f with platform serial ps.
func c06Expect(fr []byte, f *vFrame, ps uint16) {
	kind := c06ReplyKind(f.id)
	ok, rid, phone, serial, body := c06Unframe(fr, f.v2019)
	vrt_Assert(ok, "reply frame is not a well-formed frame of the sender's layout")
	vrt_Assert(vrt_BytesEq(phone, f.phone), "reply not addressed to the sender's phone")
	vrt_Assert(serial == ps, "reply does not carry the platform serial counter value")
	switch kind {
	case 1:
		vrt_Assert(rid == 0x8001, "reply type is not the general response")
		if f.id == 0x1003 {
			return // acknowledgement body empty by design
		}
		vrt_Assert(len(body) == 5 && uint16(body[0])<<8|uint16(body[1]) == f.serial && uint16(body[2])<<8|uint16(body[3]) == f.id, "general response does not echo the request's serial and ID")
		if f.id == 0x0102 {
			// result 0 exactly when the authentication code equals the sender's phone string
			code := f.body
			if f.v2019 {
				code = f.body[1 : 1+int(f.body[0])]
			}
			match := vrt_StrEq(string(code), jt808BcdString(f.phone))
			vrt_Assert((body[4] == 0) == match && body[4] <= 1, "authentication result differs")
		} else {
			vrt_Assert(body[4] == 0, "general response result is not success")
		}
	case 2:
		vrt_Assert(rid == 0x8100, "reply type is not the registration response")
		vrt_Assert(len(body) >= 3 && uint16(body[0])<<8|uint16(body[1]) == f.serial && body[2] == 0, "registration response does not echo serial / success")
		vrt_Assert(vrt_StrEq(string(body[3:]), jt808BcdString(f.phone)), "registration response authentication code is not the phone string")
	case 3:
		vrt_Assert(rid == 0x8800, "reply type is not the multimedia response")
		vrt_Assert(len(body) >= 4 && vrt_BytesEq(body[0:4], f.body[0:4]), "multimedia response does not carry the multimedia ID")
	case 4:
		vrt_Assert(rid == 0x9212, "reply type is not 0x9212")
	}
}

// VerifC06OneReply: one message of every terminal-originated ID of the default handler map (and one
// unsupported ID) on a live connection whose platform serial counter starts from an arbitrary value
// (one inductive step: any position in a conversation, wrap-around included).
func VerifC06OneReply() {
	vrt_ClockFrozen()
	ids := c06TerminalIDs()
	k := vrt_Choose("id", len(ids)+1)
	id := uint16(0x0F0F) // not in the default map
	if k < len(ids) {
		id = ids[k]
	}
	v2019 := vrt_Choose("v2019", 2) == 1
	ev := &vRecorder{}
	conn := vrt_NewTCPConn()
	vrt_ConnLive(conn)
	c := newConnection(conn, (&GoJT808{}).createDefaultHandle(), ev, true,
		func(message *Message, activeChan chan<- *ActiveMessage) (string, error) {
			return message.JTMessage.Header.TerminalPhoneNo, nil
		}, func(key string) {})
	pre := vrt_U16("platformSerial")
	c.platformSerialNumber = pre
	f := vGenFrame("f", id, v2019, 0, 0)
	f.body = c06Body(id, v2019)
	vNoSpecialChecksum(f)
	go c.reader()
	go c.write()
	vrt_ConnPushRead(conn, f.bytes())
	vrt_Yield()
	frames := c06Frames(vrt_ConnWritten(conn))
	kind := c06ReplyKind(id)
	if id == 0x0102 && v2019 && len(f.body) < 36 {
		kind = 0 // too short for its fixed fields: logged, not answered (by design)
	}
	if kind == 0 {
		vrt_Assert(len(frames) == 0, "a response / unsupported message must not be answered")
		vrt_Assert(c.platformSerialNumber == pre, "platform serial advanced without a reply")
		vrt_Cover("no-reply", true)
		if k == len(ids) {
			vrt_Assert(ev.notSupp == 1, "unsupported ID not reported to OnNotSupportedEvent exactly once")
		}
	} else {
		vrt_Assert(len(frames) == 1, "exactly one reply expected")
		c06Expect(frames[0], f, pre)
		vrt_Assert(c.platformSerialNumber == pre+1, "platform serial must advance by one per reply (mod 65536)")
		vrt_Assert(len(ev.reads) == 1 && ev.writes == 1, "read/write callbacks must each fire exactly once")
		vrt_Cover("reply", true)
		vrt_Cover("serial-wrap", pre == 0xffff)
	}
}

// VerifC06Conversation: a sequence of requests on one connection; replies leave in request order
// with consecutive platform serials starting at 0; each handled message is reported to the read
// callback exactly once; a sub-packaged message counts once, when complete.
func VerifC06Conversation() {
	vrt_ClockFrozen()
	maxMsgs := 3
	if vrt_Tier() > 0 {
		maxMsgs = 4
	}
	nm := 2 + vrt_Choose("messages", maxMsgs-1)
	// 0x0102s: a 2019-layout authentication whose body is too short for its fixed fields - handled,
	// logged and not answered (by design); it must not consume a platform serial either
	pool := []uint16{0x0002, 0x0200, 0x0100, 0x0001, 0x0F0F, 0x0102}
	ev := &vRecorder{}
	conn := vrt_NewTCPConn()
	vrt_ConnLive(conn)
	c := newConnection(conn, (&GoJT808{}).createDefaultHandle(), ev, true,
		func(message *Message, activeChan chan<- *ActiveMessage) (string, error) {
			return message.JTMessage.Header.TerminalPhoneNo, nil
		}, func(key string) {})
	go c.reader()
	go c.write()
	var sent []*vFrame
	perRead := vrt_Choose("oneRead", 2) == 1
	var stream []byte
	for i := 0; i < nm; i++ {
		id := pool[vrt_Choose("id", len(pool))]
		f := vGenFrame("f", id, id == 0x0102, 0, 0)
		if id == 0x0102 {
			f.body = []byte{1}
		}
		vNoSpecialChecksum(f)
		sent = append(sent, f)
		if perRead {
			stream = append(stream, f.bytes()...)
		} else {
			vrt_ConnPushRead(conn, f.bytes())
			if vrt_Choose("yieldBetween", 2) == 1 {
				vrt_Yield()
			}
		}
	}
	if perRead {
		vrt_ConnPushRead(conn, stream)
	}
	vrt_Yield()
	frames := c06Frames(vrt_ConnWritten(conn))
	want := 0
	handled := 0
	for _, f := range sent {
		if f.id != 0x0F0F {
			handled++
		}
		if c06ReplyKind(f.id) != 0 && f.id != 0x0102 {
			vrt_Assert(want < len(frames), "a reply is missing")
			c06Expect(frames[want], f, uint16(want))
			want++
		}
	}
	vrt_Assert(len(frames) == want, "more replies than requests that require one")
	vrt_Assert(len(ev.reads) == handled, "each handled message must be reported to the read callback exactly once")
	vrt_Assert(ev.writes == want, "each reply must be reported to the write callback exactly once")
	vrt_Cover("three-replies", want >= 3)
	vrt_Cover("unanswered-auth-in-between", nm >= 2 && sent[0].id == 0x0102 && c06ReplyKind(sent[1].id) != 0)
	vrt_Cover("mixed", want < nm)
}

func init() {
	vrtHarnesses["VerifC06SubPackage"] = VerifC06SubPackage
}

// VerifC06SubPackage: a sub-packaged message between two ordinary ones counts once, when complete:
// one reply of its type, numbered in sequence, one read callback.
func VerifC06SubPackage() {
	vrt_ClockFrozen()
	ev := &vRecorder{}
	conn := vrt_NewTCPConn()
	vrt_ConnLive(conn)
	c := newConnection(conn, (&GoJT808{}).createDefaultHandle(), ev, true,
		func(message *Message, activeChan chan<- *ActiveMessage) (string, error) {
			return message.JTMessage.Header.TerminalPhoneNo, nil
		}, func(key string) {})
	go c.reader()
	go c.write()
	n := 2 + vrt_Choose("N", 2)
	parts := c05Transfer("sp", 0x0801, n, 0)
	hb1 := &vFrame{id: 0x0002, phone: parts[0].phone, serial: 100}
	hb2 := &vFrame{id: 0x0002, phone: parts[0].phone, serial: 101}
	vNoSpecialChecksum(hb1)
	vNoSpecialChecksum(hb2)
	vrt_ConnPushRead(conn, hb1.bytes())
	order := c05Perms(n)[vrt_Choose("order", len(c05Perms(n)))]
	for _, k := range order {
		vrt_ConnPushRead(conn, parts[k-1].bytes())
		if vrt_Choose("yield", 2) == 1 {
			vrt_Yield()
		}
	}
	vrt_ConnPushRead(conn, hb2.bytes())
	vrt_Yield()
	frames := c06Frames(vrt_ConnWritten(conn))
	vrt_Assert(len(frames) == 3, "heartbeat, complete sub-packaged message, heartbeat must give exactly three replies")
	c06Expect(frames[0], hb1, 0)
	ok, rid, phone, serial, _ := c06Unframe(frames[1], false)
	vrt_Assert(ok && rid == 0x8800 && serial == 1 && vrt_BytesEq(phone, parts[0].phone), "the complete sub-packaged 0x0801 must be answered once with 0x8800 and the next platform serial")
	c06Expect(frames[2], hb2, 2)
	vrt_Assert(len(ev.reads) == 3 && ev.writes == 3, "a sub-packaged message must be reported to the callbacks once, when complete")
	vrt_Cover("out-of-order-packets", n == 3 && order[1] == 3)
}
