//go:build verif

package service

import (
	"time"

	"github.com/cuteLittleDevil/go-jt808/protocol/jt808"
	"github.com/cuteLittleDevil/go-jt808/protocol/model"
)

func init() {
	vrtHarnesses["VerifC14Reissue"] = VerifC14Reissue
	vrtHarnesses["VerifC14Expiry"] = VerifC14Expiry
	vrtHarnesses["VerifC14LateArrival"] = VerifC14LateArrival
}

// c14Subsets: every non-empty set of missing package numbers out of 2..n (packet 1 always present).
func c14Missing(n int) []bool {
	miss := make([]bool, n+1)
	any := false
	for k := 2; k <= n; k++ {
		if vrt_Choose("missing", 2) == 1 {
			miss[k] = true
			any = true
		}
	}
	if !any {
		miss[n] = true
	}
	return miss
}

// VerifC14Reissue: with the clock symbolic (arbitrary non-decreasing instants), an inbound read that
// the harness brackets with its own clock reads t0 <= (server's now) <= t1 produces no 0x8003 if
// t1 is at most 5 s after the last packet, exactly one naming exactly the missing numbers if t0 is
// more than 5 s after it, and a second read within 5 s of that produces none; resupplying the named
// packets then completes the message.
func VerifC14Reissue() {
	maxN := 3
	if vrt_Tier() > 0 {
		maxN = 4
	}
	n := 2 + vrt_Choose("N", maxN-1)
	fs := c05Transfer("t", 0x0801, n, 0)
	miss := c14Missing(n)
	r := vNewReader()
	start := vNow()
	for k := 1; k <= n; k++ {
		if miss[k] {
			continue
		}
		msgs, err := r.read(fs[k-1].bytes())
		// bound: the packets that do arrive arrive within 4 s of each other (no gap, no expiry yet)
		vrt_Assume(!vNow().After(start.Add(4 * time.Second)))
		vrt_Assert(err == nil, "valid packet reported as an error")
		for _, m := range msgs {
			vrt_Assert(!m.ExtensionFields.SubcontractComplete, "incomplete transfer delivered as complete")
			vrt_Assert(m.Command != 0x8003, "re-request issued while packets were still arriving without a 5 s gap being established")
		}
	}
	// optionally a second transfer (another message ID, 2 packets, packet 2 missing) is pending as well
	two := vrt_Choose("secondTransfer", 2) == 1
	var gs []*vFrame
	if two {
		gs = c05Transfer("u", 0x0704, 2, 0)
		vrt_Assume(gs[0].serial != fs[0].serial) // the harness tells the two re-requests apart by the serial they name
		_, err := r.read(gs[0].bytes())
		vrt_Assume(!vNow().After(start.Add(4 * time.Second)))
		vrt_Assert(err == nil, "valid packet reported as an error")
	}
	rec, ok := r.pack.timeoutRecord[0x0801]
	vrt_Assert(ok, "pending transfer not recorded")
	last := rec.updateTime
	lastB := last
	if two {
		recB, okB := r.pack.timeoutRecord[0x0704]
		vrt_Assert(okB, "second pending transfer not recorded")
		lastB = recB.updateTime
	}
	created := rec.createTime
	hb := vGenFrame("hb", 0x0002, false, 0, 0)
	vNoSpecialChecksum(hb)
	t0 := vNow()
	msgs, err := r.read(hb.bytes())
	t1 := vNow()
	vrt_Assume(!t1.After(created.Add(59 * time.Second))) // expiry is VerifC14Expiry's subject
	vrt_Assert(err == nil, "heartbeat reported as an error")
	var reqs []*Message
	for _, m := range msgs {
		if m.Command == 0x8003 {
			reqs = append(reqs, m)
		}
	}
	if !t1.After(last.Add(5*time.Second)) && !t1.After(lastB.Add(5*time.Second)) {
		vrt_Assert(len(reqs) == 0, "re-request sent although the last packet arrived at most 5 s ago")
		vrt_Cover("within-5s", true)
		return
	}
	if !t0.After(last.Add(5*time.Second)) || !t0.After(lastB.Add(5*time.Second)) {
		return // the server's own clock read may fall on either side of a threshold
	}
	vrt_Cover("after-5s", true)
	if two {
		// one exact re-request per pending transfer (compared as a set: map iteration order)
		vrt_Assert(len(reqs) == 2, "one re-request per pending transfer expected")
		seenA, seenB := false, false
		for _, rq := range reqs {
			var q model.P0x8003
			vrt_Assert(q.Parse(rq.JTMessage) == nil, "re-request body does not parse as 0x8003")
			if q.OriginalSerialNumber == gs[0].serial && !seenB {
				seenB = true
				vrt_Assert(len(q.AgainPackageList) == 1 && q.AgainPackageList[0] == 2 && q.AgainPackageCount == 1, "re-request of the second transfer does not list exactly its missing packet")
				continue
			}
			vrt_Assert(q.OriginalSerialNumber == fs[0].serial && !seenA, "re-request names an unknown serial")
			seenA = true
			cnt := 0
			for k := 2; k <= n; k++ {
				if miss[k] {
					vrt_Assert(cnt < len(q.AgainPackageList) && q.AgainPackageList[cnt] == uint16(k), "re-request of the first transfer does not list exactly its missing packets")
					cnt++
				}
			}
			vrt_Assert(cnt == len(q.AgainPackageList) && int(q.AgainPackageCount) == cnt, "re-request of the first transfer lists packets of another transfer")
		}
		vrt_Cover("two-transfers", true)
		return
	}
	vrt_Assert(len(reqs) == 1, "exactly one re-request expected after more than 5 s of silence")
	req := reqs[0]
	// the 0x8003 is addressed like the first packet and names its serial and the missing numbers
	var p model.P0x8003
	vrt_Assert(p.Parse(req.JTMessage) == nil, "re-request body does not parse as 0x8003")
	vrt_Assert(p.OriginalSerialNumber == fs[0].serial, "re-request does not name the first packet's serial number")
	want := []uint16{}
	for k := 2; k <= n; k++ {
		if miss[k] {
			want = append(want, uint16(k))
		}
	}
	vrt_Assert(int(p.AgainPackageCount) == len(want) && len(p.AgainPackageList) == len(want), "re-request count differs from the number of missing packets")
	for i := range want {
		vrt_Assert(p.AgainPackageList[i] == want[i], "re-request does not list exactly the missing package numbers in ascending order")
	}
	vrt_Assert(vrt_StrEq(req.JTMessage.Header.TerminalPhoneNo, jt808BcdString(fs[0].phone)), "re-request not addressed to the sender")
	// at most one per 5 s: another read right away produces none
	t2a := vNow()
	msgs2, _ := r.read(hb.bytes())
	t2 := vNow()
	_ = t2a
	if !t2.After(t0.Add(5*time.Second)) && !t2.After(created.Add(59*time.Second)) {
		for _, m := range msgs2 {
			vrt_Assert(m.Command != 0x8003, "second re-request within 5 s of the first")
		}
		vrt_Cover("rate-limited", true)
	}
	// resupply completes the message
	completes := 0
	var body []byte
	for k := 2; k <= n; k++ {
		if !miss[k] {
			continue
		}
		ms, err := r.read(fs[k-1].bytes())
		vrt_Assert(err == nil, "resupplied packet reported as an error")
		for _, m := range ms {
			if m.ExtensionFields.SubcontractComplete {
				completes++
				body = append([]byte{}, m.JTMessage.Body...)
			}
		}
	}
	tEnd := vNow()
	if !tEnd.After(created.Add(59 * time.Second)) {
		var wantBody []byte
		for _, f := range fs {
			wantBody = append(wantBody, f.body...)
		}
		vrt_Assert(completes == 1, "message not completed by the resupplied packets")
		vrt_Assert(vrt_BytesEq(body, wantBody), "completed body differs after resupply")
		vrt_Cover("completed-after-resupply", true)
	}
}

// VerifC14LateArrival: after more than 5 s of silence the next inbound data is itself one of the
// transfer's missing packets. A packet has then just arrived, so no re-request is due on that read
// (and never one naming the packet just received); if it was the last missing one the message
// completes on that read; otherwise, after another 5 s of silence, a heartbeat draws exactly one
// re-request naming exactly what is still missing.
func VerifC14LateArrival() {
	n := 2 + vrt_Choose("N", 2)
	fs := c05Transfer("t", 0x0801, n, 0)
	miss := c14Missing(n)
	r := vNewReader()
	start := vNow()
	for k := 1; k <= n; k++ {
		if miss[k] {
			continue
		}
		_, err := r.read(fs[k-1].bytes())
		vrt_Assume(!vNow().After(start.Add(4 * time.Second)))
		vrt_Assert(err == nil, "valid packet reported as an error")
	}
	rec, ok := r.pack.timeoutRecord[0x0801]
	vrt_Assert(ok, "pending transfer not recorded")
	last, created := rec.updateTime, rec.createTime
	first, remaining := 0, 0
	for k := 2; k <= n; k++ {
		if miss[k] {
			if first == 0 {
				first = k
			} else {
				remaining++
			}
		}
	}
	t0 := vNow()
	msgs, err := r.read(fs[first-1].bytes())
	t1 := vNow()
	vrt_Assume(t0.After(last.Add(5 * time.Second)))      // more than 5 s of silence before it
	vrt_Assume(!t1.After(t0.Add(4 * time.Second)))       // the read itself takes less than 5 s
	vrt_Assume(!t1.After(created.Add(50 * time.Second))) // well before expiry
	vrt_Assert(err == nil, "late packet reported as an error")
	completes := 0
	var body []byte
	for _, m := range msgs {
		vrt_Assert(m.Command != 0x8003, "re-request sent on the read in which a packet of the transfer has just arrived")
		if m.ExtensionFields.SubcontractComplete {
			completes++
			body = append([]byte{}, m.JTMessage.Body...)
		}
	}
	if remaining == 0 {
		var wantBody []byte
		for _, f := range fs {
			wantBody = append(wantBody, f.body...)
		}
		vrt_Assert(completes == 1 && vrt_BytesEq(body, wantBody), "the late packet was the last missing one but the message did not complete with the right body")
		vrt_Cover("late-packet-completes", true)
		return
	}
	vrt_Assert(completes == 0, "incomplete transfer delivered as complete")
	rec2, ok2 := r.pack.timeoutRecord[0x0801]
	vrt_Assert(ok2, "pending transfer forgotten")
	last2 := rec2.updateTime
	hb := &vFrame{id: 0x0002, phone: fs[0].phone, serial: 77}
	t2 := vNow()
	msgs2, err2 := r.read(hb.bytes())
	t3 := vNow()
	vrt_Assume(t2.After(last2.Add(5 * time.Second)))
	vrt_Assume(!t3.After(created.Add(59 * time.Second)))
	vrt_Assert(err2 == nil, "heartbeat reported as an error")
	reqs := 0
	for _, m := range msgs2 {
		if m.Command != 0x8003 {
			continue
		}
		reqs++
		var q model.P0x8003
		vrt_Assert(q.Parse(m.JTMessage) == nil, "re-request body does not parse as 0x8003")
		vrt_Assert(q.OriginalSerialNumber == fs[0].serial, "re-request does not name the first packet's serial number")
		cnt := 0
		for k := 2; k <= n; k++ {
			if miss[k] && k != first {
				vrt_Assert(cnt < len(q.AgainPackageList) && q.AgainPackageList[cnt] == uint16(k), "re-request does not list exactly the packets still missing")
				cnt++
			}
		}
		vrt_Assert(cnt == len(q.AgainPackageList) && int(q.AgainPackageCount) == cnt, "re-request lists a packet that has arrived")
	}
	vrt_Assert(reqs == 1, "exactly one re-request expected after another 5 s of silence")
	vrt_Cover("re-request-after-late-packet", true)
}

func jt808BcdString(b []byte) string {
	m := jt808.NewJTMessage()
	_ = m
	d := make([]byte, 0, 2*len(b))
	hexd := func(n byte) byte {
		if n < 10 {
			return '0' + n
		}
		return 'a' + n - 10
	}
	for _, x := range b {
		d = append(d, hexd(x>>4), hexd(x&0x0f))
	}
	for i := range d {
		if d[i] != '0' {
			return string(d[i:])
		}
	}
	return string(d)
}

// VerifC14Expiry: a transfer still incomplete more than 60 s after it began is discarded by the
// next inbound read and a late packet completes nothing.
func VerifC14Expiry() {
	n := 2 + vrt_Choose("N", 2)
	fs := c05Transfer("t", 0x0801, n, 0)
	r := vNewReader()
	_, err := r.read(fs[0].bytes())
	vrt_Assert(err == nil, "valid packet reported as an error")
	rec := r.pack.timeoutRecord[0x0801]
	if rec == nil {
		return // the clock already jumped past 60 s inside the first read
	}
	created := rec.createTime
	hb := vGenFrame("hb", 0x0002, false, 0, 0)
	vNoSpecialChecksum(hb)
	t0 := vNow()
	_, err = r.read(hb.bytes())
	t1 := vNow()
	vrt_Assert(err == nil, "heartbeat reported as an error")
	_, still := r.pack.timeoutRecord[0x0801]
	if t0.After(created.Add(60 * time.Second)) {
		vrt_Assert(!still, "transfer older than 60 s not discarded")
		vrt_Cover("expired", true)
		// late packets complete nothing
		for k := 2; k <= n; k++ {
			ms, _ := r.read(fs[k-1].bytes())
			for _, m := range ms {
				vrt_Assert(!m.ExtensionFields.SubcontractComplete, "expired transfer delivered")
			}
		}
	} else if !t1.After(created.Add(60 * time.Second)) {
		vrt_Assert(still, "transfer discarded before 60 s had passed")
		vrt_Cover("kept", true)
	}
}
