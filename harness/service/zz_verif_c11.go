//go:build verif

package service

import (
	"errors"

	"github.com/cuteLittleDevil/go-jt808/protocol/jt808"
)

func init() {
	vrtHarnesses["VerifC11Registry"] = VerifC11Registry
	vrtHarnesses["VerifC11Connections"] = VerifC11Connections
}

func c11Msg(key string) *Message {
	return &Message{JTMessage: &jt808.JTMessage{Header: &jt808.Header{TerminalPhoneNo: key, Property: &jt808.BodyProperty{}}}}
}

// VerifC11Registry: the real session manager (its goroutine, channels and closures run under the
// cooperative scheduler) driven through every history of join / leave / write over two symbolic
// keys (equal or not is the solver's choice), compared with a reference model of the registry.
func VerifC11Registry() {
	vrt_ClockFrozen()
	maxOps := 4
	if vrt_Tier() > 0 {
		maxOps = 5
	}
	sm := newSessionManager(func(m *Message) (string, bool) { return m.JTMessage.Header.TerminalPhoneNo, true })
	go sm.run()
	keys := []string{vrt_String("keyA", 1), vrt_String("keyB", 1)}
	chans := []chan *ActiveMessage{make(chan *ActiveMessage, 3), make(chan *ActiveMessage, 3)}
	// reference model: key -> index of the channel that owns it
	type entry struct {
		key string
		ch  int
	}
	var model []entry
	find := func(k string) int {
		for i, e := range model {
			if e.key == k {
				return i
			}
		}
		return -1
	}
	nOps := 1 + vrt_Choose("ops", maxOps)
	for i := 0; i < nOps; i++ {
		ki := vrt_Choose("key", 2)
		k := keys[ki]
		switch vrt_Choose("op", 3) {
		case 0: // join with channel ki
			got, err := sm.join(c11Msg(k), chans[ki])
			if find(k) >= 0 {
				vrt_Assert(err != nil && errors.Is(err, _errKeyExist), "join on an online key must be refused with the key-exists error")
				vrt_Cover("duplicate-join", true)
			} else {
				vrt_Assert(err == nil && got == k, "join on a free key must succeed and return the key")
				model = append(model, entry{k, ki})
			}
		case 1: // leave
			sm.leave(k)
			if j := find(k); j >= 0 {
				model = append(model[:j], model[j+1:]...)
			}
		case 2: // write
			am := NewActiveMessage(k, 0x8104, nil, 0)
			var res *Message
			done := false
			go func() { res = sm.write(am); done = true }()
			vrt_Yield()
			if j := find(k); j >= 0 {
				owner := model[j].ch
				vrt_Assert(!done, "write to an online key returned before the connection answered")
				var routed *ActiveMessage
				select {
				case routed = <-chans[owner]:
				default:
				}
				vrt_Assert(routed == am, "command not routed to the connection that owns the key")
				select {
				case <-chans[1-owner]:
					vrt_Fail("command also delivered to another connection")
				default:
				}
				routed.replyChan <- &Message{}
				vrt_Yield()
				vrt_Assert(done && res != nil, "caller not released by the connection's answer")
				vrt_Cover("routed", true)
			} else {
				vrt_Assert(done && res != nil && res.ExtensionFields.Err != nil && errors.Is(res.ExtensionFields.Err, ErrNotExistKey), "write to an offline key must return the not-exist error at once")
				vrt_Cover("not-exist", true)
			}
		}
	}
	vrt_Cover("equal-keys", keys[0] == keys[1])
}

// VerifC11Connections: two real connections presenting the same (symbolic) phone: the second is
// refused and closed without affecting the first, join/leave callbacks fire once each with the
// right keys, commands keep being routed to the first, and after the first ends its key is free.
func VerifC11Connections() {
	vrt_ClockFrozen()
	g := &GoJT808{}
	sm := newSessionManager(func(m *Message) (string, bool) { return m.JTMessage.Header.TerminalPhoneNo, true })
	go sm.run()
	mk := func() (*connection, *vRecorder) {
		ev := &vRecorder{}
		conn := vrt_NewTCPConn()
		vrt_ConnLive(conn)
		c := newConnection(conn, g.createDefaultHandle(), ev, true, sm.join, sm.leave)
		go c.reader()
		go c.write()
		return c, ev
	}
	f1 := vGenFrame("a", 0x0002, false, 0, 0)
	vNoSpecialChecksum(f1)
	c1, ev1 := mk()
	vrt_ConnPushRead(c1.conn, f1.bytes())
	vrt_Yield()
	key := jt808BcdString(f1.phone)
	vrt_Assert(len(ev1.joins) == 1 && vrt_StrEq(ev1.joins[0], key), "first connection not announced to the join callback with its key")
	// second connection, same phone
	f2 := &vFrame{id: 0x0002, phone: f1.phone, serial: 9}
	c2, ev2 := mk()
	vrt_ConnPushRead(c2.conn, f2.bytes())
	vrt_Yield()
	vrt_Assert(len(ev2.leaves) == 1 && ev2.leaves[0] == "", "refused connection must end (leave callback with the empty key)")
	vrt_Assert(len(ev1.leaves) == 0, "first connection affected by the duplicate")
	// a command for the key goes to the first connection
	var res *Message
	go func() { res = sm.write(NewActiveMessage(key, 0x8104, nil, 0)) }()
	vrt_Yield()
	w1 := c06Frames(vrt_ConnWritten(c1.conn))
	w2 := c06Frames(vrt_ConnWritten(c2.conn))
	vrt_Assert(len(w1) == 2 && len(w2) == 0, "command not written to the connection that owns the key (after its heartbeat reply)")
	// the first connection ends: its key becomes free
	vrt_ConnEOF(c1.conn)
	vrt_Yield()
	vrt_Assert(len(ev1.leaves) == 1 && vrt_StrEq(ev1.leaves[0], key), "leave callback of the first connection missing or with another key")
	r := sm.write(NewActiveMessage(key, 0x8104, nil, 0))
	vrt_Assert(r.ExtensionFields.Err != nil && errors.Is(r.ExtensionFields.Err, ErrNotExistKey), "key not freed when its connection ended")
	_ = res
	vrt_Cover("duplicate-refused", true)
	// a new connection can now take the key, and commands are routed to it
	f3 := &vFrame{id: 0x0002, phone: f1.phone, serial: 11}
	c3, ev3 := mk()
	vrt_ConnPushRead(c3.conn, f3.bytes())
	vrt_Yield()
	vrt_Assert(len(ev3.joins) == 1 && vrt_StrEq(ev3.joins[0], key) && len(ev3.leaves) == 0, "a new connection could not take the key freed by the old one")
	go func() { _ = sm.write(NewActiveMessage(key, 0x8104, nil, 0)) }()
	vrt_Yield()
	vrt_Assert(len(c06Frames(vrt_ConnWritten(c3.conn))) == 2, "command not routed to the connection that took over the key")
	vrt_Cover("reconnect", true)
}
