//go:build verif

package service

import (
	"errors"
	"sync"
	"time"

	"github.com/cuteLittleDevil/go-jt808/protocol/jt808"
)

func init() {
	vrtHarnesses["VerifC11Registry"] = VerifC11Registry
	vrtHarnesses["VerifC11Connections"] = VerifC11Connections
	vrtHarnesses["VerifC11Schedules"] = VerifC11Schedules
	vrtHarnesses["VerifC11ConcurrentJoins"] = VerifC11ConcurrentJoins
}

func c11Msg(key string) *Message {
	return &Message{JTMessage: &jt808.JTMessage{Header: &jt808.Header{TerminalPhoneNo: key, Property: &jt808.BodyProperty{}}}}
}

// VerifC11Registry: the real session manager (its goroutine, channels and closures run under the
// cooperative scheduler) driven through every history of join / leave / write over two symbolic
// keys (equal or not is the solver's choice), compared with a reference model of the registry.
func VerifC11Registry() {
	vrt_ClockFrozen()
	maxOps := 4
	if vrt_Tier() > 0 {
		maxOps = 5
	}
	sm := newSessionManager(func(m *Message) (string, bool) { return m.JTMessage.Header.TerminalPhoneNo, true })
	go sm.run()
	keys := []string{vrt_String("keyA", 1), vrt_String("keyB", 1)}
	chans := []chan *ActiveMessage{make(chan *ActiveMessage, 3), make(chan *ActiveMessage, 3)}
	// reference model: key -> index of the channel that owns it
	type entry struct {
		key string
		ch  int
	}
	var model []entry
	find := func(k string) int {
		for i, e := range model {
			if e.key == k {
				return i
			}
		}
		return -1
	}
	nOps := 1 + vrt_Choose("ops", maxOps)
	for i := 0; i < nOps; i++ {
		ki := vrt_Choose("key", 2)
		k := keys[ki]
		switch vrt_Choose("op", 3) {
		case 0: // join with channel ki
			got, err := sm.join(c11Msg(k), chans[ki])
			if find(k) >= 0 {
				vrt_Assert(err != nil && errors.Is(err, _errKeyExist), "join on an online key must be refused with the key-exists error")
				vrt_Cover("duplicate-join", true)
			} else {
				vrt_Assert(err == nil && got == k, "join on a free key must succeed and return the key")
				model = append(model, entry{k, ki})
			}
		case 1: // leave
			sm.leave(k)
			if j := find(k); j >= 0 {
				model = append(model[:j], model[j+1:]...)
			}
		case 2: // write
			am := NewActiveMessage(k, 0x8104, nil, 0)
			var res *Message
			done := false
			go func() { res = sm.write(am); done = true }()
			vrt_Yield()
			if j := find(k); j >= 0 {
				owner := model[j].ch
				vrt_Assert(!done, "write to an online key returned before the connection answered")
				var routed *ActiveMessage
				select {
				case routed = <-chans[owner]:
				default:
				}
				vrt_Assert(routed == am, "command not routed to the connection that owns the key")
				select {
				case <-chans[1-owner]:
					vrt_Fail("command also delivered to another connection")
				default:
				}
				routed.replyChan <- &Message{}
				vrt_Yield()
				vrt_Assert(done && res != nil, "caller not released by the connection's answer")
				vrt_Cover("routed", true)
			} else {
				vrt_Assert(done && res != nil && res.ExtensionFields.Err != nil && errors.Is(res.ExtensionFields.Err, ErrNotExistKey), "write to an offline key must return the not-exist error at once")
				vrt_Cover("not-exist", true)
			}
		}
	}
	vrt_Cover("equal-keys", keys[0] == keys[1])
}

// VerifC11Connections: two real connections presenting the same (symbolic) phone: the second is
// refused and closed without affecting the first, join/leave callbacks fire once each with the
// right keys, commands keep being routed to the first, and after the first ends its key is free.
func VerifC11Connections() {
	vrt_ClockFrozen()
	g := &GoJT808{}
	sm := newSessionManager(func(m *Message) (string, bool) { return m.JTMessage.Header.TerminalPhoneNo, true })
	go sm.run()
	mk := func() (*connection, *vRecorder) {
		ev := &vRecorder{}
		conn := vrt_NewTCPConn()
		vrt_ConnLive(conn)
		c := newConnection(conn, g.createDefaultHandle(), ev, true, sm.join, sm.leave)
		go c.reader()
		go c.write()
		return c, ev
	}
	f1 := vGenFrame("a", 0x0002, false, 0, 0)
	vNoSpecialChecksum(f1)
	c1, ev1 := mk()
	vrt_ConnPushRead(c1.conn, f1.bytes())
	vrt_Yield()
	key := jt808BcdString(f1.phone)
	vrt_Assert(len(ev1.joins) == 1 && vrt_StrEq(ev1.joins[0], key), "first connection not announced to the join callback with its key")
	// second connection, same phone
	f2 := &vFrame{id: 0x0002, phone: f1.phone, serial: 9}
	c2, ev2 := mk()
	vrt_ConnPushRead(c2.conn, f2.bytes())
	vrt_Yield()
	vrt_Assert(len(ev2.leaves) == 1 && ev2.leaves[0] == "", "refused connection must end (leave callback with the empty key)")
	vrt_Assert(len(ev1.leaves) == 0, "first connection affected by the duplicate")
	// a command for the key goes to the first connection
	var res *Message
	go func() { res = sm.write(NewActiveMessage(key, 0x8104, nil, 0)) }()
	vrt_Yield()
	w1 := c06Frames(vrt_ConnWritten(c1.conn))
	w2 := c06Frames(vrt_ConnWritten(c2.conn))
	vrt_Assert(len(w1) == 2 && len(w2) == 0, "command not written to the connection that owns the key (after its heartbeat reply)")
	// the first connection ends: its key becomes free
	vrt_ConnEOF(c1.conn)
	vrt_Yield()
	vrt_Assert(len(ev1.leaves) == 1 && vrt_StrEq(ev1.leaves[0], key), "leave callback of the first connection missing or with another key")
	r := sm.write(NewActiveMessage(key, 0x8104, nil, 0))
	vrt_Assert(r.ExtensionFields.Err != nil && errors.Is(r.ExtensionFields.Err, ErrNotExistKey), "key not freed when its connection ended")
	_ = res
	vrt_Cover("duplicate-refused", true)
	// a new connection can now take the key, and commands are routed to it
	f3 := &vFrame{id: 0x0002, phone: f1.phone, serial: 11}
	c3, ev3 := mk()
	vrt_ConnPushRead(c3.conn, f3.bytes())
	vrt_Yield()
	vrt_Assert(len(ev3.joins) == 1 && vrt_StrEq(ev3.joins[0], key) && len(ev3.leaves) == 0, "a new connection could not take the key freed by the old one")
	go func() { _ = sm.write(NewActiveMessage(key, 0x8104, nil, 0)) }()
	vrt_Yield()
	vrt_Assert(len(c06Frames(vrt_ConnWritten(c3.conn))) == 2, "command not routed to the connection that took over the key")
	vrt_Cover("reconnect", true)
}

// ---- schedules ----

type c11Ev struct {
	conn int
	kind int // 0 join ok, 1 join refused, 2 leave
	key  string
}

// c11Log is shared by the callbacks of all connections of a harness, which the real code calls from
// each connection's own reader goroutine: natively (schedule replay) these run in parallel between
// two gates, hence the lock (a no-op in the cooperative executor).
type c11Log struct {
	mu  sync.Mutex
	evs []c11Ev
}

func (l *c11Log) add(e c11Ev) {
	l.mu.Lock()
	l.evs = append(l.evs, e)
	l.mu.Unlock()
}

// snapshot: the events so far (taken by the harness after vrt_Quiesce)
func (l *c11Log) snapshot() []c11Ev {
	l.mu.Lock()
	defer l.mu.Unlock()
	return append([]c11Ev{}, l.evs...)
}

type c11Rec struct {
	vRecorder
	id  int
	log *c11Log
}

func (r *c11Rec) OnJoinEvent(msg *Message, key string, err error) {
	k := 0
	if err != nil {
		k = 1
	}
	r.log.add(c11Ev{r.id, k, key})
}
func (r *c11Rec) OnLeaveEvent(key string) { r.log.add(c11Ev{r.id, 2, key}) }

// VerifC11Schedules: connection A owns a key; then, in every order and - within the deviation
// bound - overlapping at every channel, socket and go operation of the real code: A's peer
// closes, a second connection B presents the same key, and a caller sends a command for the key.
// Checked on the final (quiescent) state, so that no assertion depends on one goroutine having
// run before another: nothing panicked; each connection was announced at most once to the join
// callback and exactly once to the leave callback if it ended, with the key it had obtained (the
// empty key if it was refused); at most one connection still owns the key; the command was
// written to exactly one connection that had joined, or failed; a later command reaches the
// connection that now owns the key, or fails at once with the not-exist error if none does.
func VerifC11Schedules() {
	vrt_ClockFrozen()
	vrt_Sched(0)
	g := &GoJT808{}
	sm := newSessionManager(func(m *Message) (string, bool) { return m.JTMessage.Header.TerminalPhoneNo, true })
	vrt_Go(sm.run)
	log := &c11Log{}
	conns := []*connection{}
	mk := func(id int) *connection {
		ev := &c11Rec{id: id, log: log}
		conn := vrt_NewTCPConn()
		vrt_ConnLive(conn)
		c := newConnection(conn, g.createDefaultHandle(), ev, true, sm.join, sm.leave)
		vrt_Go(c.reader)
		vrt_Go(c.write)
		conns = append(conns, c)
		return c
	}
	phone := []byte{0x01, 0x23, 0x45, 0x67, 0x89, 0x02}
	key := jt808BcdString(phone)
	a := mk(0)
	vrt_ConnPushRead(a.conn, (&vFrame{id: 0x0002, phone: phone, serial: 1}).bytes())
	b := mk(1)
	vrt_Quiesce()
	evs0 := log.snapshot()
	vrt_Assert(len(evs0) == 1 && evs0[0] == c11Ev{0, 0, key}, "first connection not announced to the join callback with its key")
	k := 1
	if vrt_Tier() > 0 {
		k = 2
	}
	order := vrt_Choose("order", 6)
	backToBack := vrt_Choose("backToBack", 2) == 1 // the three actions without letting the system settle in between
	vrt_Sched(k)
	var res *Message
	done := false
	acts := [][3]int{{0, 1, 2}, {0, 2, 1}, {1, 0, 2}, {1, 2, 0}, {2, 0, 1}, {2, 1, 0}}[order]
	for _, act := range acts {
		switch act {
		case 0:
			vrt_ConnEOF(a.conn)
		case 1:
			vrt_ConnPushRead(b.conn, (&vFrame{id: 0x0002, phone: phone, serial: 7}).bytes())
		case 2:
			vrt_Go(func() {
				res = sm.write(NewActiveMessage(key, 0x8104, []byte{1}, time.Second))
				done = true
			})
		}
		if !backToBack {
			vrt_Yield()
		}
	}
	vrt_Cover("back-to-back", backToBack)
	vrt_Quiesce()
	vrt_Wake() // the command's timeout, if it is still waiting for the terminal's answer
	vrt_Quiesce()
	// callbacks per connection
	evs := log.snapshot()
	owner := -1
	for id := 0; id < 2; id++ {
		joins, refused, leaves := 0, 0, 0
		leaveKey := ""
		for _, e := range evs {
			if e.conn != id {
				continue
			}
			switch e.kind {
			case 0:
				joins++
				vrt_Assert(e.key == key, "join callback with another key")
			case 1:
				refused++
			case 2:
				leaves++
				leaveKey = e.key
			}
		}
		vrt_Assert(joins+refused <= 1, "connection announced to the join callback more than once")
		vrt_Assert(leaves <= 1, "connection announced to the leave callback more than once")
		if leaves == 1 {
			if joins == 1 {
				vrt_Assert(leaveKey == key, "leave callback with a key other than the one the connection had joined with")
			} else {
				vrt_Assert(leaveKey == "", "a connection that never owned the key left with it (the owner would be evicted)")
			}
		}
		if refused == 1 {
			vrt_Assert(leaves == 1, "refused connection was not closed")
		}
		if joins == 1 && leaves == 0 {
			vrt_Assert(owner == -1, "two live connections own the same key")
			owner = id
		}
	}
	vrt_Assert(owner != 0, "the first connection still owns the key although its peer has closed")
	// the command: written to one connection that had joined, or failed
	wa := len(c06Frames(vrt_ConnWritten(a.conn)))
	wb := len(c06Frames(vrt_ConnWritten(b.conn)))
	vrt_Assert(done && res != nil, "SendActiveMessage has not returned")
	cmdA, cmdB := wa-1, 0 // A answered its heartbeat
	if wb > 0 {
		cmdB = wb - 1
		for _, e := range evs {
			if e.conn == 1 && e.kind == 1 {
				cmdB = wb // a refused connection gets no heartbeat reply
			}
		}
	}
	vrt_Assert(cmdA+cmdB <= 1, "one command was written more than once")
	if cmdA+cmdB == 0 {
		vrt_Assert(res.ExtensionFields.Err != nil, "command reported as delivered but written to no connection")
	}
	vrt_Cover("second-connection-took-over", owner == 1)
	vrt_Cover("second-connection-refused", owner == -1)
	vrt_Cover("command-to-first", cmdA == 1)
	vrt_Cover("command-to-second", cmdB == 1)
	// a later command follows the current owner
	var late *Message
	vrt_Go(func() { late = sm.write(NewActiveMessage(key, 0x8104, []byte{2}, time.Second)) })
	vrt_Quiesce()
	if owner == -1 {
		vrt_Assert(late != nil && late.ExtensionFields.Err != nil && errors.Is(late.ExtensionFields.Err, ErrNotExistKey), "key not free although no live connection owns it")
	} else {
		vrt_Assert(len(c06Frames(vrt_ConnWritten(b.conn))) == wb+1, "command not routed to the connection that now owns the key")
	}
}

// VerifC11ConcurrentJoins: two connections present the same key for the first time at the same
// moment (their first messages are pushed back to back), under the default schedule and every
// schedule within the deviation bound. Final state: exactly one of them joined, the other was
// refused and closed having left with the empty key; a command reaches the winner's socket and no
// other; when the winner's peer closes, the key is free.
func VerifC11ConcurrentJoins() {
	vrt_ClockFrozen()
	vrt_Sched(0)
	g := &GoJT808{}
	sm := newSessionManager(func(m *Message) (string, bool) { return m.JTMessage.Header.TerminalPhoneNo, true })
	vrt_Go(sm.run)
	log := &c11Log{}
	mk := func(id int) *connection {
		ev := &c11Rec{id: id, log: log}
		conn := vrt_NewTCPConn()
		vrt_ConnLive(conn)
		c := newConnection(conn, g.createDefaultHandle(), ev, true, sm.join, sm.leave)
		vrt_Go(c.reader)
		vrt_Go(c.write)
		return c
	}
	phone := []byte{0x01, 0x23, 0x45, 0x67, 0x89, 0x05}
	key := jt808BcdString(phone)
	cs := []*connection{mk(0), mk(1)}
	vrt_Quiesce()
	k := 1
	if vrt_Tier() > 0 {
		k = 2
	}
	firstB := vrt_Choose("secondConnectionFirst", 2)
	vrt_Sched(k)
	vrt_ConnPushRead(cs[firstB].conn, (&vFrame{id: 0x0002, phone: phone, serial: 1}).bytes())
	vrt_ConnPushRead(cs[1-firstB].conn, (&vFrame{id: 0x0002, phone: phone, serial: 2}).bytes())
	vrt_Quiesce()
	evs := log.snapshot()
	winner := -1
	for id := 0; id < 2; id++ {
		joins, refused, leaves := 0, 0, 0
		leaveKey := "?"
		for _, e := range evs {
			if e.conn != id {
				continue
			}
			switch e.kind {
			case 0:
				joins++
			case 1:
				refused++
			case 2:
				leaves++
				leaveKey = e.key
			}
		}
		vrt_Assert(joins+refused == 1, "each connection must be announced exactly once to the join callback")
		if joins == 1 {
			vrt_Assert(winner == -1, "two connections joined the same key at the same time")
			vrt_Assert(leaves == 0, "the connection that owns the key was ended")
			winner = id
		} else {
			vrt_Assert(leaves == 1 && leaveKey == "", "the refused connection must end, leaving with the empty key")
		}
	}
	vrt_Assert(winner != -1, "neither connection obtained the free key")
	var res *Message
	vrt_Go(func() { res = sm.write(NewActiveMessage(key, 0x8104, []byte{1}, time.Second)) })
	vrt_Quiesce()
	ww := len(c06Frames(vrt_ConnWritten(cs[winner].conn)))
	wl := len(c06Frames(vrt_ConnWritten(cs[1-winner].conn)))
	vrt_Assert(ww == 2 && wl == 0, "command not written to the one connection that owns the key (after its heartbeat reply)")
	vrt_ConnEOF(cs[winner].conn)
	vrt_Quiesce()
	vrt_Assert(res != nil && res.ExtensionFields.Err != nil, "the caller of the outstanding command was not answered when the connection ended")
	var late *Message
	vrt_Go(func() { late = sm.write(NewActiveMessage(key, 0x8104, []byte{2}, time.Second)) })
	vrt_Quiesce()
	vrt_Assert(late != nil && late.ExtensionFields.Err != nil && errors.Is(late.ExtensionFields.Err, ErrNotExistKey), "key not freed when the connection that owned it ended")
	vrt_Cover("first-connection-won", winner == 0)
	vrt_Cover("second-connection-won", winner == 1)
}
