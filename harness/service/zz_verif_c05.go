//go:build verif

package service

func init() {
	vrtHarnesses["VerifC05Reassembly"] = VerifC05Reassembly
	vrtHarnesses["VerifC05BadNumber"] = VerifC05BadNumber
	vrtHarnesses["VerifC05Stray"] = VerifC05Stray
	vrtHarnesses["VerifC05TwoTransfers"] = VerifC05TwoTransfers
}

// VerifC05TwoTransfers: two concurrent transfers with different message IDs, their packets
// interleaved in every way that keeps each transfer's own order (packet 1 first); each is delivered
// exactly once with its own body.
func VerifC05TwoTransfers() {
	vrt_ClockFrozen()
	a := c05Transfer("a", 0x0801, 2+vrt_Choose("Na", 2), 0)
	b := c05Transfer("b", 0x0704, 2, 0)
	r := vNewReader()
	ia, ib := 0, 0
	doneA, doneB := 0, 0
	var bodyA, bodyB []byte
	coalesce := vrt_Choose("pairsCoalesced", 2) == 1
	var pending []byte
	flush := func() {
		if len(pending) == 0 {
			return
		}
		msgs, err := r.read(pending)
		vrt_Assert(err == nil, "valid packets reported as an error")
		pending = nil
		for _, m := range msgs {
			if m.ExtensionFields.SubcontractComplete {
				if m.JTMessage.Header.ID == 0x0801 {
					doneA++
					bodyA = append([]byte{}, m.JTMessage.Body...)
				} else {
					doneB++
					bodyB = append([]byte{}, m.JTMessage.Body...)
				}
			}
		}
	}
	for k := 0; ia < len(a) || ib < len(b); k++ {
		takeA := ib >= len(b) || (ia < len(a) && vrt_Choose("next", 2) == 0)
		var f *vFrame
		if takeA {
			f = a[ia]
			ia++
		} else {
			f = b[ib]
			ib++
		}
		pending = append(pending, f.bytes()...)
		if !coalesce || k%2 == 1 {
			flush()
		}
	}
	flush()
	var wantA, wantB []byte
	for _, f := range a {
		wantA = append(wantA, f.body...)
	}
	for _, f := range b {
		wantB = append(wantB, f.body...)
	}
	vrt_Assert(doneA == 1 && doneB == 1, "each of two interleaved transfers must be delivered exactly once")
	vrt_Assert(vrt_BytesEq(bodyA, wantA) && vrt_BytesEq(bodyB, wantB), "interleaved transfers were mixed up or truncated")
	vrt_Cover("interleaved", true)
}

// c05Transfer builds the N packets of one sub-packaged message (same ID and phone, non-empty bodies
// of unequal lengths, escape-free unless ksp > 0).
func c05Transfer(label string, id uint16, n int, ksp int) []*vFrame {
	phone := vrt_Bytes(label+".phone", 6)
	vrt_Assume(phone[0]>>4 != 0)
	vrtKSpecial(label+".phonesp", 0, vrtEscSpecial, phone)
	var fs []*vFrame
	for k := 1; k <= n; k++ {
		f := &vFrame{id: id, phone: phone, total: uint16(n), number: uint16(k)}
		sb := vrt_Bytes(label+".serial", 2)
		vrtKSpecial(label+".serialsp", 0, vrtEscSpecial, sb)
		f.serial = uint16(sb[0])<<8 | uint16(sb[1])
		f.body = vrt_Bytes(label+".body", 1+(k%2))
		vrtKSpecial(label+".bodysp", ksp, vrtEscSpecial, f.body)
		vNoSpecialChecksum(f)
		fs = append(fs, f)
	}
	return fs
}

func c05Perms(n int) [][]int {
	// arrival orders of packets 2..n (packet 1 always first)
	switch n {
	case 2:
		return [][]int{{1, 2}}
	case 3:
		return [][]int{{1, 2, 3}, {1, 3, 2}}
	}
	return [][]int{{1, 2, 3, 4}, {1, 2, 4, 3}, {1, 3, 2, 4}, {1, 3, 4, 2}, {1, 4, 2, 3}, {1, 4, 3, 2}}
}

// VerifC05Reassembly: N packets, packet 1 first, the others in any order, optionally one duplicate
// and one interleaved ordinary message; each packet in its own read through the reused buffer, or
// all coalesced into one read.
func VerifC05Reassembly() {
	vrt_ClockFrozen() // re-request and expiry timing is C14's subject
	maxN := 3
	if vrt_Tier() > 0 {
		maxN = 4
	}
	n := 2 + vrt_Choose("N", maxN-1)
	ksp := vrt_Choose("bodySpecials", 2)
	fs := c05Transfer("t", 0x0801, n, ksp)
	perms := c05Perms(n)
	order := perms[vrt_Choose("order", len(perms))]
	// the sequence of frames on the wire
	type item struct {
		f   *vFrame
		num int // package number, 0 for the ordinary message
	}
	var seq []item
	dup := vrt_Choose("duplicate", n) // 0 = none, k>=1: packet order[k] is sent twice in a row
	hbAt := vrt_Choose("heartbeatAt", n+1) // position of an interleaved heartbeat (n = none)
	hb := vGenFrame("hb", 0x0002, false, 0, 0)
	vNoSpecialChecksum(hb)
	for i, k := range order {
		if i == hbAt {
			seq = append(seq, item{hb, 0})
		}
		seq = append(seq, item{fs[k-1], k})
		if dup >= 1 && i == dup && i < n-1 {
			seq = append(seq, item{fs[k-1], k})
		}
	}
	var want []byte
	for _, f := range fs {
		want = append(want, f.body...)
	}
	segKinds := 3
	if n >= 4 {
		segKinds = 2 // four packets: whole or coalesced only (splitting every packet three ways does not finish)
	}
	seg := vrt_Choose("segmentation", segKinds) // 0: one packet per read, 1: all coalesced, 2: every packet split over two reads
	coalesced := seg == 1
	r := vNewReader()
	completes := 0
	var complete vSnap
	seen := map[int]bool{}
	deliver := func(msgs []*Message, lastNum int, all bool) {
		for _, m := range msgs {
			if m.ExtensionFields.SubcontractComplete {
				completes++
				complete = vSnapOf(m)
				if !all {
					vrt_Assert(len(seen) == n, "message delivered as complete while a packet is still missing")
				}
			}
		}
	}
	if coalesced {
		var stream []byte
		for _, it := range seq {
			stream = append(stream, it.f.bytes()...)
			if it.num > 0 {
				seen[it.num] = true
			}
		}
		msgs, err := r.read(stream)
		vrt_Assert(err == nil, "valid packets reported as an error")
		deliver(msgs, 0, true)
	} else {
		for _, it := range seq {
			if it.num > 0 {
				seen[it.num] = true
			}
			before := completes
			b := it.f.bytes()
			if seg == 2 {
				// the frame arrives in two reads (cut after the first byte, in the middle, or before the last byte)
				at := []int{1, len(b) / 2, len(b) - 1}[vrt_Choose("splitAt", 3)]
				part, err := r.read(b[:at])
				vrt_Assert(err == nil && len(part) == 0, "half a packet must not produce a message or an error")
				b = b[at:]
			}
			msgs, err := r.read(b)
			vrt_Assert(err == nil, "valid packet reported as an error")
			deliver(msgs, it.num, false)
			if len(seen) == n && before == 0 && it.num > 0 {
				vrt_Assert(completes == 1, "complete message not delivered by the read that brought the last missing packet")
			}
		}
	}
	vrt_Class("kfC05Alias", !coalesced)
	vrt_Assert(completes == 1, "exactly one complete message must be delivered")
	vrt_Assert(vrt_BytesEq(complete.body, want), "reassembled body is not the concatenation of the packet bodies in package-number order")
	vrt_Cover("out-of-order", n >= 3 && order[1] != 2)
	vrt_Cover("duplicate", dup >= 1 && dup < n-1)
	vrt_Cover("coalesced", coalesced)
	vrt_Cover("split-packets", seg == 2)
	vrt_Cover("separate-reads-escape-free", !coalesced && ksp == 0)
}

// VerifC05BadNumber: a packet numbered 0 or greater than the announced total is ignored without
// disturbing the transfer (and without a panic).
func VerifC05BadNumber() {
	vrt_ClockFrozen()
	n := 2 + vrt_Choose("N", 2)
	fs := c05Transfer("t", 0x0801, n, 0)
	bad := &vFrame{id: 0x0801, phone: fs[0].phone, total: uint16(n), serial: fs[0].serial}
	switch vrt_Choose("badKind", 3) {
	case 0:
		bad.number = 0
	case 1:
		bad.number = uint16(n + 1)
	case 2:
		bad.number = 0xffff
	}
	vrt_Class("kfC05NumberZero", bad.number == 0)
	bad.body = vrt_Bytes("bad.body", 1)
	vrtKSpecial("bad.bodysp", 0, vrtEscSpecial, bad.body)
	vNoSpecialChecksum(bad)
	at := 1 + vrt_Choose("badAt", n-1) // after packet 1, before the last packet
	r := vNewReader()
	completes := 0
	var body []byte
	for i, f := range fs {
		if i == at {
			msgs, err := r.read(bad.bytes())
			vrt_Assert(err == nil, "packet with an impossible number must be ignored, not reported as an error")
			for _, m := range msgs {
				vrt_Assert(!m.ExtensionFields.SubcontractComplete, "transfer completed by a packet with an impossible number")
			}
		}
		msgs, err := r.read(append([]byte{}, f.bytes()...))
		vrt_Assert(err == nil, "valid packet reported as an error")
		for _, m := range msgs {
			if m.ExtensionFields.SubcontractComplete {
				completes++
				body = append([]byte{}, m.JTMessage.Body...)
			}
		}
	}
	var want []byte
	for _, f := range fs {
		want = append(want, f.body...)
	}
	vrt_Assert(completes == 1, "transfer disturbed by a packet with an impossible number")
	vrt_Cover("number-zero", bad.number == 0)
	vrt_Cover("number-too-large", bad.number > uint16(n))
	vrt_Assert(vrt_BytesEq(body, want), "reassembled body wrong after a packet with an impossible number")
}

// VerifC05Stray: a sub-package that belongs to no transfer in progress - a packet numbered k >= 2
// before any packet 1 of its message ID has been seen, or a late duplicate of packet k after its
// transfer has completed - is ignored: no panic, no error, nothing delivered as complete; the
// stream goes on (a heartbeat behind it is parsed) and a following fresh transfer of the same ID
// completes with its own bytes only.
func VerifC05Stray() {
	vrt_ClockFrozen()
	n := 2 + vrt_Choose("N", 2)
	late := vrt_Choose("lateDuplicate", 2) == 1
	fs := c05Transfer("t", 0x0801, n, 0)
	r := vNewReader()
	if late {
		completes := 0
		for _, f := range fs {
			msgs, err := r.read(f.bytes())
			vrt_Assert(err == nil, "valid packet reported as an error")
			for _, m := range msgs {
				if m.ExtensionFields.SubcontractComplete {
					completes++
				}
			}
		}
		vrt_Assert(completes == 1, "transfer did not complete")
	}
	k := 2 + vrt_Choose("strayNumber", n-1)
	stray := &vFrame{id: 0x0801, phone: fs[0].phone, total: uint16(n), number: uint16(k), serial: fs[k-1].serial, body: fs[k-1].body}
	var msgs []*Message
	var err error
	panicked := vrt_Panics(func() { msgs, err = r.read(stray.bytes()) })
	vrt_Assert(!panicked, "a sub-package that belongs to no transfer in progress makes the parser panic")
	vrt_Assert(err == nil, "a sub-package that belongs to no transfer in progress must be ignored, not reported as an error")
	for _, m := range msgs {
		vrt_Assert(!m.ExtensionFields.SubcontractComplete, "a message was delivered as complete from a stray sub-package")
	}
	hb := &vFrame{id: 0x0002, phone: fs[0].phone, serial: 9}
	msgs, err = r.read(hb.bytes())
	vrt_Assert(err == nil && len(msgs) >= 1 && msgs[0].JTMessage.Header.ID == 0x0002, "the stream did not go on after a stray sub-package")
	// a fresh transfer of the same ID afterwards
	gs := c05Transfer("u", 0x0801, 2, 0)
	completes := 0
	var body []byte
	for _, f := range gs {
		ms, e := r.read(f.bytes())
		vrt_Assert(e == nil, "valid packet reported as an error")
		for _, m := range ms {
			if m.ExtensionFields.SubcontractComplete {
				completes++
				body = append([]byte{}, m.JTMessage.Body...)
			}
		}
	}
	vrt_Assert(completes == 1 && vrt_BytesEq(body, append(append([]byte{}, gs[0].body...), gs[1].body...)), "a transfer after a stray sub-package did not complete with its own bytes")
	vrt_Cover("late-duplicate", late)
	vrt_Cover("no-transfer-yet", !late)
}
