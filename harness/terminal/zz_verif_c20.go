//go:build verif

package terminal

import (
	"sort"

	"github.com/cuteLittleDevil/go-jt808/protocol/jt808"
	"github.com/cuteLittleDevil/go-jt808/protocol/model"
	"github.com/cuteLittleDevil/go-jt808/shared/consts"
)

func init() {
	vrtHarnesses["VerifC20Frames"] = VerifC20Frames
	vrtHarnesses["VerifC20Custom"] = VerifC20Custom
}

var c20Versions = []consts.ProtocolVersionType{consts.JT808Protocol2011, consts.JT808Protocol2013, consts.JT808Protocol2019}

func c20Phone(ver consts.ProtocolVersionType) string {
	lens := []int{1, 11, 12}
	if ver == consts.JT808Protocol2019 {
		lens = []int{1, 12, 19, 20}
	}
	if vrt_Tier() > 0 {
		lens = nil
		max := 12
		if ver == consts.JT808Protocol2019 {
			max = 20
		}
		for _, i := range []int{1, 2, 3, 6, 11, 12, 13, 19, 20} {
			if i <= max {
				lens = append(lens, i)
			}
		}
	}
	// concrete numbers at the edges of what the width can hold (2019: 20 digits, beyond 64 bits)
	edge := []string{"999999999999", "000000000001", "100000000000"}
	if ver == consts.JT808Protocol2019 {
		edge = []string{"99999999999999999999", "18446744073709551616", "18446744073709551615", "00000000000000000001"}
	}
	if k := vrt_Choose("edgePhone", len(edge)+1); k > 0 {
		vrt_Cover("edge-phone", true)
		return edge[k-1]
	}
	d := lens[vrt_Choose("digits", len(lens))]
	if d <= 4 || (vrt_Tier() > 0 && d <= 6) {
		p := vrt_String("phone", d)
		for i := 0; i < d; i++ {
			vrt_Assume(p[i] >= '0' && p[i] <= '9')
		}
		return p
	}
	// quick tier, long numbers: the first two and last two digits are symbolic, the others fixed
	e := vrt_String("phoneEnds", 4)
	for i := 0; i < 4; i++ {
		vrt_Assume(e[i] >= '0' && e[i] <= '9')
	}
	mid := make([]byte, d-4)
	for i := range mid {
		mid[i] = '5'
	}
	return e[:2] + string(mid) + e[2:]
}

// c20Zero: an empty value of the message type that belongs to a command.
func c20Zero(cmd consts.JT808CommandType) Handler {
	switch cmd {
	case consts.T0001GeneralRespond:
		return &model.T0x0001{}
	case consts.T0002HeartBeat:
		return &model.T0x0002{}
	case consts.T0100Register:
		return &model.T0x0100{}
	case consts.T0102RegisterAuth:
		return &model.T0x0102{}
	case consts.T0200LocationReport:
		return &model.T0x0200{}
	case consts.T0704LocationBatchUpload:
		return &model.T0x0704{}
	case consts.T1003UploadAudioVideoAttr:
		return &model.T0x1003{}
	case consts.T1205UploadAudioVideoResourceList:
		return &model.T0x1205{}
	case consts.T1206FileUploadCompleteNotice:
		return &model.T0x1206{}
	case consts.P8104QueryTerminalParams:
		return &model.P0x8104{}
	case consts.P8801CameraShootImmediateCommand:
		return &model.P0x8801{}
	case consts.P9003QueryTerminalAudioVideoProperties:
		return &model.P0x9003{}
	case consts.P9101RealTimeAudioVideoRequest:
		return &model.P0x9101{}
	case consts.P9102AudioVideoControl:
		return &model.P0x9102{}
	case consts.P9201SendVideoRecordRequest:
		return &model.P0x9201{}
	case consts.P9205QueryResourceList:
		return &model.P0x9205{}
	case consts.P9206FileUploadInstructions:
		return &model.P0x9206{}
	case consts.P9207FileUploadControl:
		return &model.P0x9207{}
	case consts.T1210AlarmAttachInfoMessage:
		return &model.T0x1210{}
	case consts.T1211FileInfoUpload:
		return &model.T0x1211{}
	case consts.T1212FileUploadComplete:
		return &model.T0x1212{}
	case consts.P8001GeneralRespond:
		return &defaultHandle{meHandle: &model.P0x8001{}}
	case consts.P8003ReissueSubcontractingRequest:
		return &defaultHandle{meHandle: &model.P0x8003{}}
	case consts.P8100RegisterRespond:
		return &defaultHandle{meHandle: &model.P0x8100{}}
	}
	return nil
}

func c20WantPhone(phone string, ver consts.ProtocolVersionType) string {
	width := 12
	if ver == consts.JT808Protocol2019 {
		width = 20
	}
	padded := make([]byte, 0, width)
	for i := len(phone); i < width; i++ {
		padded = append(padded, '0')
	}
	padded = append(padded, phone...)
	for i := range padded {
		if padded[i] != '0' {
			return string(padded[i:])
		}
	}
	return string(padded)
}

func c20Commands(ver consts.ProtocolVersionType) []consts.JT808CommandType {
	var ks []consts.JT808CommandType
	for k := range defaultProtocolHandles(ver) {
		ks = append(ks, k)
	}
	sort.Slice(ks, func(i, j int) bool { return ks[i] < ks[j] })
	return ks
}

// VerifC20Frames: every default command x version x phone (symbolic decimal digits): two successive
// frames decode with that command ID, phone (leading zeros aside), the version's layout and
// consecutive serials; the body parses with the matching type and re-encodes identically.
func VerifC20Frames() {
	ver := c20Versions[vrt_Choose("version", 3)]
	cmds := c20Commands(ver)
	cmd := cmds[vrt_Choose("command", len(cmds))]
	// quick tier: the header path (phone, serial, checksum escaping) is explored with symbolic values
	// for the heartbeat; the other commands, whose bodies are what differs, use one phone and serial
	// (the header code does not depend on the command). Thorough tier: symbolic for every command.
	phone, pre := "13812345678", uint16(7)
	if cmd == consts.T0002HeartBeat || (vrt_Tier() > 0 && cmd == consts.T0100Register) {
		phone = c20Phone(ver)
		pre = vrt_U16("serialBefore")
	}
	t := New(WithHeader(ver, phone))
	t.header.PlatformSerialNumber = pre
	f1 := t.CreateDefaultCommandData(cmd)
	f2 := t.CreateDefaultCommandData(cmd)
	vrt_Observe("frame1", f1)
	want := c20WantPhone(phone, ver)
	for i, f := range [][]byte{f1, f2} {
		m := jt808.NewJTMessage()
		vrt_Assert(m.Decode(f) == nil, "generated frame rejected by the decoder")
		vrt_Assert(m.Header.ID == uint16(cmd), "generated frame carries another command ID")
		vrt_Assert(vrt_StrEq(m.Header.TerminalPhoneNo, want), "generated frame carries another phone number")
		vrt_Assert((m.Header.ProtocolVersion == consts.JT808Protocol2019) == (ver == consts.JT808Protocol2019), "generated frame uses another version's header layout")
		vrt_Assert(m.Header.SerialNumber == pre+uint16(i)+1, "serial numbers of successive frames are not consecutive")
		fresh := c20Zero(cmd)
		vrt_Assert(fresh != nil, "no message type known for a simulator command (harness table out of date)")
		vrt_Assert(fresh.Parse(m) == nil, "generated body does not parse with the matching message type")
		vrt_Assert(vrt_BytesEq(fresh.Encode(), m.Body), "generated body does not re-encode to the identical bytes")
	}
	vrt_Cover("v2019", ver == consts.JT808Protocol2019)
	vrt_Cover("v2011", ver == consts.JT808Protocol2011)
	vrt_Cover("serial-wrap", pre == 0xffff)
	vrt_Cover("escaped-checksum-in-template", len(f1) > 0)
}

// VerifC20Custom: CreateCommandData with a symbolic custom body decodes to that body.
func VerifC20Custom() {
	ver := c20Versions[1+vrt_Choose("version", 2)]
	phone := c20Phone(ver)
	t := New(WithHeader(ver, phone))
	lens := []int{0, 1, 3}
	if vrt_Tier() > 0 {
		lens = []int{0, 1, 3, 5}
	}
	n := lens[vrt_Choose("bodyLen", len(lens))]
	body := vrt_Bytes("body", n)
	if n > 8 {
		vrtKSpecial("bodysp", 0, vrtEscSpecial, body[2:n-2])
	}
	idb := vrt_Bytes("command", 2)
	cmd := uint16(idb[0])<<8 | uint16(idb[1])
	vrt_Assume(cmd != 0)
	f := t.CreateCommandData(consts.JT808CommandType(cmd), body)
	m := jt808.NewJTMessage()
	vrt_Assert(m.Decode(f) == nil, "custom command frame rejected by the decoder")
	vrt_Assert(m.Header.ID == cmd && vrt_BytesEq(m.Body, body), "custom command frame does not decode to its ID and body")
	vrt_Cover("custom-body", n > 0)
}
