//go:build verif

package jt1078

import "errors"

func init() {
	vrtHarnesses["VerifC17Stream"] = VerifC17Stream
	vrtHarnesses["VerifC17Arbitrary"] = VerifC17Arbitrary
}

// c17Pkt holds the generating values of one RTP packet (JT/T 1078-2016 table 19).
type c17Pkt struct {
	attr, sign byte
	seq        uint16
	sim        []byte
	channel    byte
	typ, sub   byte
	ts         uint64
	iInt, fInt uint16
	payload    []byte
}

func c17HeaderLen(typ byte) int {
	n := 18
	if typ != 4 {
		n += 8
	}
	if typ <= 2 {
		n += 4
	}
	return n
}

// c17Encode is the reference encoder written from the standard's table.
func c17Encode(p *c17Pkt) []byte {
	out := []byte{0x30, 0x31, 0x63, 0x64, p.attr, p.sign, byte(p.seq >> 8), byte(p.seq)}
	out = append(out, p.sim...)
	out = append(out, p.channel, p.typ<<4|p.sub)
	if p.typ != 4 {
		for s := 56; s >= 0; s -= 8 {
			out = append(out, byte(p.ts>>uint(s)))
		}
	}
	if p.typ <= 2 {
		out = append(out, byte(p.iInt>>8), byte(p.iInt), byte(p.fInt>>8), byte(p.fInt))
	}
	out = append(out, byte(len(p.payload)>>8), byte(len(p.payload)))
	out = append(out, p.payload...)
	return out
}

func c17Hex(n byte) byte {
	if n < 10 {
		return '0' + n
	}
	return 'a' + (n - 10)
}

func c17Sim(bcd []byte) string {
	d := make([]byte, 0, 12)
	for _, b := range bcd {
		d = append(d, c17Hex(b>>4), c17Hex(b&0x0f))
	}
	for i := range d {
		if d[i] != '0' {
			return string(d[i:])
		}
	}
	return string(d)
}

func c17Gen(label string, plens []int, fullSim bool) *c17Pkt {
	p := &c17Pkt{}
	p.typ = byte(vrt_Choose(label+".type", 16))
	p.sub = vrt_Byte(label+".sub") & 0x0f
	p.attr = vrt_Byte(label + ".attr")
	p.sign = vrt_Byte(label + ".sign")
	p.seq = vrt_U16(label + ".seq")
	p.sim = vrt_Bytes(label+".sim", 6)
	if !fullSim {
		vrt_Assume(p.sim[0]>>4 != 0)
	}
	p.channel = vrt_Byte(label + ".channel")
	p.ts = vrt_U64(label + ".ts")
	p.iInt = vrt_U16(label + ".iInt")
	p.fInt = vrt_U16(label + ".fInt")
	n := plens[vrt_Choose(label+".plen", len(plens))]
	p.payload = vrt_Bytes(label+".payload", n)
	return p
}

func c17CheckFields(got *Packet, want *c17Pkt) {
	vrt_Assert(got.Flag.V == want.attr>>6 && got.Flag.P == (want.attr>>5)&1 && got.Flag.X == (want.attr>>4)&1 && got.Flag.CC == want.attr&0x0f, "V/P/X/CC differ")
	vrt_Assert(got.Flag.M == want.sign>>7 && uint8(got.Flag.PT) == want.sign&0x7f, "M/PT differ")
	vrt_Assert(got.Seq == want.seq, "sequence differs")
	vrt_Assert(vrt_StrEq(got.Sim, c17Sim(want.sim)), "SIM differs")
	vrt_Assert(got.LogicChannel == want.channel, "channel differs")
	vrt_Assert(uint8(got.DataType) == want.typ && uint8(got.SubcontractType) == want.sub, "type/sub-package mark differ")
	if want.typ != 4 {
		vrt_Assert(got.Timestamp == want.ts, "timestamp differs")
	}
	if want.typ <= 2 {
		vrt_Assert(got.LastIFrameInterval == want.iInt && got.LastFrameInterval == want.fInt, "frame intervals differ")
	}
	vrt_Assert(int(got.DataBodyLen) == len(want.payload), "length field differs")
	vrt_Assert(vrt_BytesEq(got.Body, want.payload), "payload differs")
}

// VerifC17Stream: concatenated packets with symbolic fields, decoded from the front with a fresh
// Packet per step; then every truncation of the stream.
func VerifC17Stream() {
	plens := []int{0, 1, 2}
	mode := vrt_Choose("mode", 2) // 0: decode the whole stream, 1: decode every truncation of it
	np := 1
	if mode == 0 || vrt_Tier() > 0 {
		np = 1 + vrt_Choose("packets", 2)
	}
	if vrt_Tier() > 0 {
		plens = []int{0, 1, 2, 950}
		if mode == 1 {
			plens = []int{0, 2}
		}
	}
	var pkts []*c17Pkt
	var stream []byte
	var ends []int
	for i := 0; i < np; i++ {
		p := c17Gen("p", plens, i == 0 && np == 1)
		pkts = append(pkts, p)
		stream = append(stream, c17Encode(p)...)
		ends = append(ends, len(stream))
	}
	tail := vrt_Bytes("trailing", vrt_Choose("ntrail", 3))
	stream = append(stream, tail...)
	vrt_Observe("stream", stream)
	if mode == 0 {
		// whole stream
		rest := stream
		for i, p := range pkts {
			pk := NewPacket()
			r, err := pk.Decode(rest)
			vrt_Assert(err == nil, "complete packet not decoded")
			c17CheckFields(pk, p)
			vrt_Assert(vrt_BytesEq(r, stream[ends[i]:]), "remainder is not the rest of the stream")
			rest = r
		}
		vrt_Cover("two-packets", np == 2)
		vrt_Cover("penetrate", pkts[0].typ == 4)
		vrt_Cover("reserved-type", pkts[0].typ >= 5)
		return
	}
	// every cut
	c := vrt_Choose("cut", len(stream))
	rest := stream[:c:c]
	start := 0
	for i, p := range pkts {
		if len(rest) == 0 {
			break
		}
		pk := NewPacket()
		r, err := pk.Decode(rest)
		if c >= ends[i] {
			vrt_Assert(err == nil, "complete packet in a cut stream not decoded")
			c17CheckFields(pk, p)
			vrt_Assert(vrt_BytesEq(r, stream[ends[i]:c]), "remainder of a cut stream wrong")
			rest = r
			start = ends[i]
			continue
		}
		// the cut falls inside packet i: it must be reported as too short, never as a packet
		vrt_Assert(err != nil, "truncated packet decoded as a packet")
		vrt_Assert(errors.Is(err, ErrHeaderLength2Short) || errors.Is(err, ErrBodyLength2Short), "truncated packet not reported as too short")
		vrt_Cover("cut-in-header", c-start < c17HeaderLen(p.typ))
		vrt_Cover("cut-in-payload", c-start >= c17HeaderLen(p.typ))
		break
	}
}

// VerifC17Arbitrary: arbitrary byte strings.
func VerifC17Arbitrary() {
	maxL := 20
	if vrt_Tier() > 0 {
		maxL = 34
	}
	l := vrt_Choose("L", maxL+1)
	data := vrt_Bytes("data", l)
	pk := NewPacket()
	r, err := pk.Decode(data)
	marker := l >= 4 && data[0] == 0x30 && data[1] == 0x31 && data[2] == 0x63 && data[3] == 0x64
	if l < 16 {
		vrt_Assert(err != nil && errors.Is(err, ErrHeaderLength2Short), "fewer than 16 bytes must be 'header too short'")
		vrt_Cover("short", true)
		return
	}
	if !marker {
		vrt_Assert(err != nil && errors.Is(err, ErrUnqualifiedData), "wrong marker must be 'unqualified'")
		vrt_Cover("unqualified", true)
		return
	}
	typ := data[15] >> 4
	hl := c17HeaderLen(typ)
	if l < hl {
		vrt_Assert(err != nil && errors.Is(err, ErrHeaderLength2Short), "incomplete header must be 'header too short'")
		return
	}
	plen := int(data[hl-2])<<8 | int(data[hl-1])
	if l < hl+plen {
		vrt_Assert(err != nil && errors.Is(err, ErrBodyLength2Short), "incomplete payload must be 'body too short'")
		vrt_Cover("body-short", true)
		return
	}
	vrt_Assert(err == nil, "complete packet rejected")
	vrt_Assert(vrt_BytesEq(pk.Body, data[hl:hl+plen]), "payload differs")
	vrt_Assert(vrt_BytesEq(r, data[hl+plen:]), "remainder differs")
	vrt_Cover("complete", true)
}
