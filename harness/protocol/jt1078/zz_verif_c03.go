//go:build verif

package jt1078

func init() {
	vrtHarnesses["VerifC03PacketHistory"] = VerifC03PacketHistory
}

// VerifC03PacketHistory (T3 for the RTP decoder): decoding a packet into a Packet value that
// already decoded another packet gives the same outcome as decoding it into a fresh one.
func VerifC03PacketHistory() {
	p1 := c17Gen("first", []int{0, 1}, false)
	p2 := c17Gen("second", []int{0, 2}, false)
	b1, b2 := c17Encode(p1), c17Encode(p2)
	used, fresh := NewPacket(), NewPacket()
	_, err := used.Decode(b1)
	vrt_Assume(err == nil)
	r1, e1 := used.Decode(b2)
	r2, e2 := fresh.Decode(b2)
	vrt_Assert((e1 == nil) == (e2 == nil), "acceptance of a packet depends on what the Packet decoded before")
	if e1 == nil && e2 == nil {
		vrt_Assert(used.Seq == fresh.Seq && used.Timestamp == fresh.Timestamp && used.LastIFrameInterval == fresh.LastIFrameInterval &&
			used.LastFrameInterval == fresh.LastFrameInterval && used.DataBodyLen == fresh.DataBodyLen && vrt_BytesEq(used.Body, fresh.Body) && vrt_BytesEq(r1, r2),
			"decoded fields depend on what the Packet decoded before")
		vrt_Cover("compared", true)
	}
	vrt_Cover("video-then-audio", p1.typ <= 2 && p2.typ == 3)
}
