//go:build verif

package jt808

func init() {
	vrtHarnesses["VerifC03FrameHistory"] = VerifC03FrameHistory
}

// VerifC03FrameHistory (T3 for the frame decoder): decoding a frame into a JTMessage that already
// decoded another frame gives the same outcome as decoding it into a fresh one.
func VerifC03FrameHistory() {
	mk := func(label string) []byte {
		frag := vrt_Choose(label+".frag", 2)
		v2019 := vrt_Choose(label+".v2019", 2)
		hl := 12
		if v2019 == 1 {
			hl = 17
		}
		if frag == 1 {
			hl += 4
		}
		n := vrt_Choose(label+".body", 2)
		f := vrt_Bytes(label, 1+hl+n+1+1)
		vrt_Assume(f[0] == 0x7e && f[len(f)-1] == 0x7e)
		vrtKSpecial(label+".sp", 0, vrtEscSpecial, f[1:len(f)-1])
		vrt_Assume((f[3]>>6)&1 == byte(v2019) && (f[3]>>5)&1 == byte(frag))
		vrt_Assume(f[5+v2019]>>4 != 0) // one rendering shape of the phone (stripping is C02's subject)
		return f
	}
	f1, f2 := mk("first"), mk("second")
	used, fresh := NewJTMessage(), NewJTMessage()
	vrt_Assume(used.Decode(f1) == nil)
	e1 := used.Decode(f2)
	e2 := fresh.Decode(f2)
	vrt_Assert((e1 == nil) == (e2 == nil), "acceptance of a frame depends on what the JTMessage decoded before")
	if e1 == nil && e2 == nil {
		vrt_Assert(used.Header.ID == fresh.Header.ID && used.Header.SerialNumber == fresh.Header.SerialNumber &&
			used.Header.SubPackageSum == fresh.Header.SubPackageSum && used.Header.SubPackageNo == fresh.Header.SubPackageNo &&
			vrt_StrEq(used.Header.TerminalPhoneNo, fresh.Header.TerminalPhoneNo) && vrt_BytesEq(used.Body, fresh.Body),
			"decoded fields depend on what the JTMessage decoded before")
		vrt_Cover("compared", true)
	}
	vrt_Cover("fragmented-then-plain", (f1[3]>>5)&1 == 1 && (f2[3]>>5)&1 == 0)
}
