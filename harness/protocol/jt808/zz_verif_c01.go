//go:build verif

package jt808

import "github.com/cuteLittleDevil/go-jt808/shared/consts"

func init() {
	vrtHarnesses["VerifC01Dense"] = VerifC01Dense
}

// c01Source builds "a header taken from a decoded terminal message": whatever the real
// Header.decode makes of an arbitrary header byte string of the right length.
func c01Source(ver, frag int) (*Header, []byte) {
	n := 12
	if ver == 1 {
		n = 17
	}
	if frag == 1 {
		n += 4
	}
	src := vrt_Bytes("srcHeader", n)
	// the property word must announce the layout we chose (version bit 14, fragment bit 13)
	vrt_Assume((src[2]>>6)&1 == byte(ver))
	vrt_Assume((src[2]>>5)&1 == byte(frag))
	h := &Header{Property: &BodyProperty{}}
	err := h.decode(src)
	vrt_Assume(err == nil)
	return h, src
}

// VerifC01Dense: every byte of a short body is free (all 256 values), header bytes free.
func VerifC01Dense() {
	ver := vrt_Choose("ver", 2)
	frag := vrt_Choose("frag", 2)
	maxN := 3
	if vrt_Tier() > 0 {
		maxN = 5
	}
	n := vrt_Choose("n", maxN+1)
	h, src := c01Source(ver, frag)
	// phone bytes and the rest of the header are not special for the escape scan here
	for _, b := range src {
		vrt_Assume(b != 0x7e && b != 0x7d)
	}
	idHi, idLo := vrt_Byte("replyIDhi"), vrt_Byte("replyIDlo")
	vrt_Assume(idHi != 0x7e && idHi != 0x7d && idLo != 0x7e && idLo != 0x7d)
	h.ReplyID = uint16(idHi)<<8 | uint16(idLo)
	vrt_Assume(h.ReplyID != 0) // 0 is not a message ID
	psHi, psLo := vrt_Byte("pserialHi"), vrt_Byte("pserialLo")
	vrt_Assume(psHi != 0x7e && psHi != 0x7d && psLo != 0x7e && psLo != 0x7d)
	h.PlatformSerialNumber = uint16(psHi)<<8 | uint16(psLo)
	ps := h.PlatformSerialNumber
	body := vrt_Bytes("body", n)
	wantPhone := h.TerminalPhoneNo
	wantVer := h.ProtocolVersion

	out := h.Encode(body)

	vrt_Assert(len(out) >= 2 && out[0] == 0x7e && out[len(out)-1] == 0x7e, "frame must start and end with 0x7e")
	for i := 1; i < len(out)-1; i++ {
		vrt_Assert(out[i] != 0x7e, "interior delimiter in framed bytes")
	}
	m := NewJTMessage()
	err := m.Decode(out)
	vrt_Assert(err == nil, "framed message must decode")
	vrt_Assert(m.Header.ID == h.ReplyID, "decoded ID differs")
	vrt_Assert(vrt_StrEq(m.Header.TerminalPhoneNo, wantPhone), "decoded phone differs")
	vrt_Assert(m.Header.ProtocolVersion == wantVer, "decoded version differs")
	vrt_Assert(m.Header.SerialNumber == ps, "decoded serial differs")
	vrt_Assert(vrt_BytesEq(m.Body, body), "decoded body differs")
	vrt_Cover("v2019", wantVer == consts.JT808Protocol2019)
	vrt_Cover("escaped", len(out) > len(src)+n+3)
}
