//go:build verif

package jt808

import "github.com/cuteLittleDevil/go-jt808/shared/consts"

func init() {
	vrtHarnesses["VerifC01Dense"] = VerifC01Dense
	vrtHarnesses["VerifC01Header"] = VerifC01Header
	vrtHarnesses["VerifC01Long"] = VerifC01Long
	vrtHarnesses["VerifC01ViaDecode"] = VerifC01ViaDecode
}

func c01HeaderLen(ver, frag int) int {
	n := 12
	if ver == 1 {
		n = 17
	}
	if frag == 1 {
		n += 4
	}
	return n
}

// c01Source builds "a header taken from a decoded terminal message": whatever the real
// Header.decode makes of an arbitrary header byte string of the right length for the layout
// announced by its own property word (version bit 14, fragment bit 13).
func c01Source(ver, frag int) (*Header, []byte) {
	src := vrt_Bytes("srcHeader", c01HeaderLen(ver, frag))
	vrt_Assume((src[2]>>6)&1 == byte(ver))
	vrt_Assume((src[2]>>5)&1 == byte(frag))
	h := &Header{Property: &BodyProperty{}}
	err := h.decode(src)
	vrt_Assume(err == nil)
	return h, src
}

// c01Check frames body with h and asserts the property on the result.
func c01Check(h *Header, replyID, pserial uint16, body []byte) []byte {
	wantPhone := h.TerminalPhoneNo
	wantVer := h.ProtocolVersion
	h.ReplyID = replyID
	h.PlatformSerialNumber = pserial

	out := h.Encode(body)
	vrt_Observe("framed", out)

	vrt_Assert(len(out) >= 2 && out[0] == 0x7e && out[len(out)-1] == 0x7e, "frame must start and end with 0x7e")
	for i := 1; i < len(out)-1; i++ {
		vrt_Assert(out[i] != 0x7e, "interior delimiter in framed bytes")
	}
	m := NewJTMessage()
	err := m.Decode(out)
	vrt_Assert(err == nil, "framed message must decode")
	vrt_Assert(m.Header.ID == replyID, "decoded ID differs")
	vrt_Assert(vrt_StrEq(m.Header.TerminalPhoneNo, wantPhone), "decoded phone differs")
	vrt_Assert(m.Header.ProtocolVersion == wantVer, "decoded version differs")
	vrt_Assert(m.Header.SerialNumber == pserial, "decoded serial differs")
	vrt_Assert(vrt_BytesEq(m.Body, body), "decoded body differs")
	vrt_Observe("decodedBody", m.Body)
	vrt_Cover("v2019", wantVer == consts.JT808Protocol2019)
	vrt_Cover("checksum-is-7e", len(out) >= 3 && out[len(out)-3] == 0x7d && out[len(out)-2] == 0x02)
	vrt_Cover("checksum-is-7d", len(out) >= 3 && out[len(out)-3] == 0x7d && out[len(out)-2] == 0x01)
	return out
}

func c01U16(label string) (uint16, []byte) {
	b := vrt_Bytes(label, 2)
	return uint16(b[0])<<8 | uint16(b[1]), b
}

// VerifC01Dense (F1): every byte of a short body free over all 256 values; header, ID and serial
// bytes free but not special for the escape scan.
func VerifC01Dense() {
	ver := vrt_Choose("ver", 2)
	frag := vrt_Choose("frag", 2)
	maxN := 3
	if vrt_Tier() > 0 {
		maxN = 5
	}
	n := vrt_Choose("n", maxN+1)
	h, src := c01Source(ver, frag)
	vrt_Class("kfC01FragLong", frag == 1 && n >= 1000)
	id, idb := c01U16("replyID")
	vrt_Assume(id != 0) // 0 is not a message ID
	ps, psb := c01U16("platformSerial")
	vrtKSpecial("hdr", 0, vrtEscSpecial, src, idb, psb)
	body := vrt_Bytes("body", n)
	out := c01Check(h, id, ps, body)
	vrt_Cover("escaped", len(out) > len(src)+n+3)
	vrt_Cover("fragmented-source", frag == 1)
	vrt_Cover("encrypted-source", h.Property.EncryptMethod != 0)
}

// VerifC01Header (F2): special bytes anywhere in the payload (ID, property flags, phone, serial,
// body, and the derived checksum), at most K at a time, every position combination.
func VerifC01Header() {
	ver := vrt_Choose("ver", 2)
	frag := vrt_Choose("frag", 2)
	k, maxN := 2, 1
	if vrt_Tier() > 0 {
		k, maxN = 3, 2
	}
	n := vrt_Choose("n", maxN+1)
	h, src := c01Source(ver, frag)
	vrt_Class("kfC01FragLong", frag == 1 && n >= 1000)
	id, idb := c01U16("replyID")
	vrt_Assume(id != 0)
	ps, psb := c01U16("platformSerial")
	body := vrt_Bytes("body", n)
	// the bytes of the source header that reach the output are the phone bytes (and the flag bits)
	start, plen := 4, 6
	if ver == 1 {
		start, plen = 5, 10
	}
	phone := src[start : start+plen]
	vrtKSpecial("payload", k, vrtEscSpecial, idb, phone, psb, body)
	out := c01Check(h, id, ps, body)
	vrt_Cover("two-adjacent-specials", vrtEscSpecial(psb[0]) && vrtEscSpecial(psb[1]))
	vrt_Cover("special-in-phone", vrtEscSpecial(phone[0]))
	vrt_Cover("non-bcd-phone", phone[0]&0x0f > 9)
	_ = out
}

// VerifC01Long (F3): long bodies around the 1000 / 1023 boundaries; the first two and last two
// body bytes and the checksum may be special, the rest of the body is symbolic but not special.
func VerifC01Long() {
	ver := vrt_Choose("ver", 2)
	frag := vrt_Choose("frag", 2)
	lens := []int{999, 1000, 1023}
	if vrt_Tier() > 0 {
		lens = []int{255, 256, 257, 511, 512, 513, 998, 999, 1000, 1001, 1022, 1023}
	}
	n := lens[vrt_Choose("len", len(lens))]
	h, src := c01Source(ver, frag)
	vrt_Class("kfC01FragLong", frag == 1 && n >= 1000)
	id, idb := c01U16("replyID")
	vrt_Assume(id != 0)
	ps, psb := c01U16("platformSerial")
	vrtKSpecial("hdr", 0, vrtEscSpecial, src, idb, psb)
	// leading-zero stripping of the phone is covered by the other harnesses; keep one shape here
	if ver == 1 {
		vrt_Assume(src[5]>>4 != 0)
	} else {
		vrt_Assume(src[4]>>4 != 0)
	}
	body := vrt_Bytes("body", n)
	vrtKSpecial("mid", 0, vrtEscSpecial, body[2:n-2])
	vrtKSpecial("ends", 2, vrtEscSpecial, body[0:2], body[n-2:n])
	c01Check(h, id, ps, body)
	vrt_Cover("long-fragmented-source", frag == 1 && n >= 1000)
	vrt_Cover("len-1023", n == 1023)
}

// VerifC01ViaDecode: the source header comes out of a full JTMessage.Decode of a symbolic frame.
func VerifC01ViaDecode() {
	ver := vrt_Choose("ver", 2)
	frag := vrt_Choose("frag", 2)
	hl := c01HeaderLen(ver, frag)
	srcBody := vrt_Choose("srcBodyLen", 3)
	frame := vrt_Bytes("srcFrame", 1+hl+srcBody+1+1)
	vrt_Assume(frame[0] == 0x7e && frame[len(frame)-1] == 0x7e)
	vrtKSpecial("frame", 0, vrtEscSpecial, frame[1:len(frame)-1])
	vrt_Assume((frame[3]>>6)&1 == byte(ver))
	vrt_Assume((frame[3]>>5)&1 == byte(frag))
	src := NewJTMessage()
	vrt_Assume(src.Decode(frame) == nil)
	n := vrt_Choose("n", 3)
	vrt_Class("kfC01FragLong", frag == 1 && n >= 1000)
	id, idb := c01U16("replyID")
	vrt_Assume(id != 0)
	ps, psb := c01U16("platformSerial")
	vrtKSpecial("hdr", 0, vrtEscSpecial, idb, psb)
	body := vrt_Bytes("body", n)
	c01Check(src.Header, id, ps, body)
	vrt_Cover("source-with-body", srcBody > 0)
}
