//go:build verif

package jt808

func init() {
	vrtHarnesses["VerifC02Dense"] = VerifC02Dense
	vrtHarnesses["VerifC02Sparse"] = VerifC02Sparse
}

// c02Ref is an independent reading of JT/T 808 section 4 (frame layout); it shares no code with the
// implementation under test.
type c02Frame struct {
	ok       bool
	id       uint16
	bodyLen  uint16
	encrypt  bool // bit 10
	reserved bool // any of bits 11, 12, 15 set
	frag     bool
	v2019    bool
	phone    string
	serial   uint16
	total    uint16
	number   uint16
	body     []byte
	check    byte
}

func c02Hex(n byte) byte {
	if n < 10 {
		return '0' + n
	}
	return 'a' + (n - 10)
}

func c02Phone(bcd []byte) string {
	digits := make([]byte, 0, 2*len(bcd))
	for _, b := range bcd {
		digits = append(digits, c02Hex(b>>4), c02Hex(b&0x0f))
	}
	for i := range digits {
		if digits[i] != '0' {
			return string(digits[i:])
		}
	}
	return string(digits)
}

func c02Ref(data []byte) c02Frame {
	var f c02Frame
	n := len(data)
	if n < 3 || data[0] != 0x7e || data[n-1] != 0x7e {
		return f
	}
	// undo the escaping: 7d 02 -> 7e, 7d 01 -> 7d; a bare 7d is tolerated only as the last payload byte
	p := make([]byte, 0, n)
	for i := 1; i < n-1; i++ {
		b := data[i]
		if b != 0x7d {
			p = append(p, b)
			continue
		}
		if i == n-2 {
			p = append(p, 0x7d)
			break
		}
		i++
		if data[i] == 0x01 {
			p = append(p, 0x7d)
		} else if data[i] == 0x02 {
			p = append(p, 0x7e)
		} else {
			return f
		}
	}
	var x byte
	for _, b := range p {
		x ^= b
	}
	if x != 0 {
		return f
	}
	if len(p) < 4 {
		return f
	}
	prop := uint16(p[2])<<8 | uint16(p[3])
	f.v2019 = prop&0x4000 != 0
	f.frag = prop&0x2000 != 0
	f.encrypt = prop&0x0400 != 0
	f.reserved = prop&0x9800 != 0
	f.bodyLen = prop & 0x03ff
	hl, ps, pl := 12, 4, 6
	if f.v2019 {
		hl, ps, pl = 17, 5, 10
	}
	if f.frag {
		hl += 4
	}
	if len(p) != hl+int(f.bodyLen)+1 {
		return f
	}
	f.id = uint16(p[0])<<8 | uint16(p[1])
	f.phone = c02Phone(p[ps : ps+pl])
	f.serial = uint16(p[ps+pl])<<8 | uint16(p[ps+pl+1])
	if f.frag {
		f.total = uint16(p[ps+pl+2])<<8 | uint16(p[ps+pl+3])
		f.number = uint16(p[ps+pl+4])<<8 | uint16(p[ps+pl+5])
	}
	f.body = p[hl : hl+int(f.bodyLen)]
	f.check = p[len(p)-1]
	f.ok = true
	return f
}

func c02Compare(data []byte) {
	ref := c02Ref(data)
	m := NewJTMessage()
	err := m.Decode(data)
	vrt_Observe("accepted", err == nil)
	if ref.ok {
		vrt_Assert(err == nil, "well-formed frame rejected")
	} else {
		vrt_Assert(err != nil, "malformed frame accepted")
	}
	vrt_Cover("accepted", err == nil)
	vrt_Cover("rejected", err != nil)
	if err != nil || !ref.ok {
		return
	}
	h := m.Header
	vrt_Assert(h.ID == ref.id, "ID differs from the standard's reading")
	vrt_Assert(h.Property.BodyDayaLen == ref.bodyLen, "body length field differs")
	vrt_Assert((h.Property.PacketFragmented == 1) == ref.frag, "fragmentation bit differs")
	vrt_Assert((h.Property.Version == 1) == ref.v2019, "version bit differs")
	if !ref.reserved {
		vrt_Assert((h.Property.EncryptMethod != 0) == ref.encrypt, "encryption bit differs")
	}
	vrt_Assert(vrt_StrEq(h.TerminalPhoneNo, ref.phone), "phone differs")
	vrt_Assert(h.SerialNumber == ref.serial, "serial differs")
	if ref.frag {
		vrt_Assert(h.SubPackageSum == ref.total, "package total differs")
		vrt_Assert(h.SubPackageNo == ref.number, "package number differs")
	}
	vrt_Assert(vrt_BytesEq(m.Body, ref.body), "body differs")
	vrt_Assert(m.VerifyCode == ref.check, "verify code differs")
	vrt_Observe("body", m.Body)
	vrt_Cover("accepted-2019", ref.v2019)
	vrt_Cover("accepted-frag", ref.frag)
	vrt_Cover("accepted-with-escape", len(data) > 15 && len(ref.body)+13 < len(data)-2 && !ref.v2019 && !ref.frag)
}

// VerifC02Dense: every byte string of length L (interior bytes != 0x7e), all bytes free.
func VerifC02Dense() {
	maxL := 16
	if vrt_Tier() > 0 {
		maxL = 18
	}
	l := vrt_Choose("L", maxL+1)
	data := vrt_Bytes("data", l)
	for i := 1; i < l-1; i++ {
		vrt_Assume(data[i] != 0x7e)
	}
	c02Compare(data)
}

// VerifC02Sparse: longer strings with at most K escape bytes (0x7d) at any positions.
func VerifC02Sparse() {
	lens, k := []int{17, 20, 24, 25}, 1
	if vrt_Tier() > 0 {
		lens, k = []int{19, 20, 22, 24, 25, 28}, 2
	}
	l := lens[vrt_Choose("L", len(lens))]
	data := vrt_Bytes("data", l)
	for i := 1; i < l-1; i++ {
		vrt_Assume(data[i] != 0x7e)
	}
	vrtKSpecial("esc", k, func(b byte) bool { return b == 0x7d }, data[1:l-1])
	if vrt_Tier() == 0 {
		// quick tier: leading-zero stripping of the phone limited to the first three digits
		// (every stripping position is explored by VerifC02Dense for the 2013 layout)
		vrt_Assume(data[6]>>4 != 0 && data[7]>>4 != 0)
	}
	c02Compare(data)
}
