//go:build verif

package model

import (
	"github.com/cuteLittleDevil/go-jt808/shared/consts"
)

func init() {
	vrtHarnesses["VerifC08Base"] = VerifC08Base
	vrtHarnesses["VerifC08Additions"] = VerifC08Additions
}

func c08U32(b []byte) uint32 {
	return uint32(b[0])<<24 | uint32(b[1])<<16 | uint32(b[2])<<8 | uint32(b[3])
}
func c08U16(b []byte) uint16 { return uint16(b[0])<<8 | uint16(b[1]) }

func c08Digit(n byte) byte { return '0' + n }

// c08Time is the standard's reading of a 6-byte BCD time: 20YY-MM-DD hh:mm:ss.
func c08Time(b []byte) string {
	d := func(i int) (byte, byte) { return c08Digit(b[i] >> 4), c08Digit(b[i] & 0x0f) }
	y1, y2 := d(0)
	m1, m2 := d(1)
	d1, d2 := d(2)
	h1, h2 := d(3)
	n1, n2 := d(4)
	s1, s2 := d(5)
	return string([]byte{'2', '0', y1, y2, '-', m1, m2, '-', d1, d2, ' ', h1, h2, ':', n1, n2, ':', s1, s2})
}

func c08Bit(w uint32, k uint) bool { return (w>>k)&1 == 1 }

// c08CheckBase asserts tables 23-25 of JT/T 808-2019 on a parsed 28-byte location block.
func c08CheckBase(tl *T0x0200LocationItem, b []byte) {
	alarm, status := c08U32(b[0:4]), c08U32(b[4:8])
	vrt_Assert(tl.AlarmSign == alarm && tl.StatusSign == status, "alarm/status word differs")
	vrt_Assert(tl.Latitude == c08U32(b[8:12]), "latitude differs")
	vrt_Assert(tl.Longitude == c08U32(b[12:16]), "longitude differs")
	vrt_Assert(tl.Altitude == c08U16(b[16:18]), "altitude differs")
	vrt_Assert(tl.Speed == c08U16(b[18:20]), "speed differs")
	vrt_Assert(tl.Direction == c08U16(b[20:22]), "direction differs")
	vrt_Assert(vrt_StrEq(tl.DateTime, c08Time(b[22:28])), "time differs")
	a := &tl.AlarmSignDetails
	flags := []bool{a.EmergencyAlarm, a.OverSpeed, a.FatigueDriving, a.DangerousAlarm, a.GNSSModuleFault, a.GNSSAntennaFault,
		a.GNSSAntennaShortCircuit, a.TerminalPowerSupply, a.TerminalPowerSupplyShutdown, a.TerminalLCDFault, a.TTSModuleFault,
		a.CameraFault, a.ICCardModuleFault, a.OverSpeedAlarm, a.FatigueDrivingAlarm, a.ViolationDrivingAlarm, a.TirePressureAlarm,
		a.RightTurnBlindAreaAlarm, a.DrivingTimeout, a.OverTimeStop, a.InOutArea, a.InOutLine, a.SectionDrivingTime, a.LineDeviation,
		a.VSSFault, a.OilLevelAbnormality, a.StealCar, a.LaneDeviation, a.LaneOffset, a.CollisionAlarm, a.SideSlipAlarm, a.LaneOpeningAlarm}
	ok := true
	for k, f := range flags {
		ok = vrt_And(ok, f == c08Bit(alarm, uint(k)))
	}
	vrt_Assert(ok, "an alarm flag differs from its bit in table 24")
	s := &tl.StatusSignDetails
	type sb struct {
		bit uint
		f   bool
	}
	sflags := []sb{{0, s.ACC}, {1, s.Location}, {2, s.South}, {3, s.East}, {4, s.Suspended}, {5, s.Encryption}, {6, s.EmergencyBrake},
		{7, s.LaneOffset}, {10, s.Oil}, {11, s.Electricity}, {12, s.VehicleDoor}, {13, s.FrontDoor}, {14, s.MiddleDoor}, {15, s.BackDoor},
		{16, s.DriverDoor}, {17, s.CustomDoor}, {18, s.UseGPS}, {19, s.UseBD}, {20, s.UseGLONASS}, {21, s.UseGalileo}, {22, s.VehicleRunning}}
	ok = true
	for _, x := range sflags {
		ok = vrt_And(ok, x.f == c08Bit(status, x.bit))
	}
	vrt_Assert(ok, "a single-bit status flag differs from its bit in table 25")
}

func c08BCDTime(b []byte) bool {
	ok := true
	for _, x := range b {
		ok = vrt_And(ok, vrt_And(x>>4 <= 9, x&0x0f <= 9))
	}
	return ok
}

// VerifC08Base: the 28-byte block in each of the three carrier messages; alarm and status words are
// whole 32-bit symbols, so all 2^32 words are covered by one path each.
func VerifC08Base() {
	carrier := vrt_Choose("carrier", 3)
	b := vrt_Bytes("block", 28)
	vrt_Assume(c08BCDTime(b[22:28])) // BCD timestamps (the standard's domain for this field)
	switch carrier {
	case 0:
		var t T0x0200
		err := t.Parse(c03Msg(vrt_Choose("ver", 2), b))
		vrt_Assert(err == nil, "0x0200 with a bare location block rejected")
		c08CheckBase(&t.T0x0200LocationItem, b)
		vrt_Cover("0x0200", true)
	case 1:
		n := 1 + vrt_Choose("items", 2)
		body := []byte{0, byte(n), vrt_Byte("locationType")}
		blocks := [][]byte{b}
		if n == 2 {
			b2 := vrt_Bytes("block2", 28)
			vrt_Assume(c08BCDTime(b2[22:28]))
			blocks = append(blocks, b2)
		}
		for _, x := range blocks {
			body = append(body, 0, 28)
			body = append(body, x...)
		}
		var t T0x0704
		err := t.Parse(c03Msg(0, body))
		vrt_Assert(err == nil, "well-formed 0x0704 rejected")
		vrt_Assert(len(t.Items) == n, "0x0704 item count differs")
		for i, x := range blocks {
			c08CheckBase(&t.Items[i].T0x0200LocationItem, x)
		}
		vrt_Cover("0x0704-two-items", n == 2)
	case 2:
		head := vrt_Bytes("mediaHead", 8)
		pkg := vrt_Bytes("mediaPackage", vrt_Choose("pkgLen", 3))
		body := append(append(append([]byte{}, head...), b...), pkg...)
		var t T0x0801
		err := t.Parse(c03Msg(0, body))
		vrt_Assert(err == nil, "well-formed 0x0801 rejected")
		vrt_Assert(t.MultimediaID == c08U32(head[0:4]), "multimedia ID differs")
		c08CheckBase(&t.T0x0200LocationItem, b)
		vrt_Assert(vrt_BytesEq(t.MultimediaPackage, pkg), "multimedia package differs")
		vrt_Cover("0x0801", true)
	}
}

// ---- additional information items (tables 26-32) ----

type c08Item struct {
	id      byte
	content []byte
}

var c08StdIDs = []byte{0x01, 0x02, 0x03, 0x04, 0x05, 0x06, 0x11, 0x12, 0x13, 0x25, 0x2A, 0x2B, 0x30, 0x31}

func c08Admissible(id byte, n int) bool {
	switch id {
	case 0x01, 0x25, 0x2B:
		return n == 4
	case 0x02, 0x03, 0x04, 0x06, 0x2A:
		return n == 2
	case 0x05:
		return n == 30
	case 0x11:
		return n == 1 || n == 5
	case 0x12:
		return n == 6
	case 0x13:
		return n == 7
	case 0x30, 0x31:
		return n == 1
	}
	return true
}

func c08IsStd(id byte) bool {
	for _, s := range c08StdIDs {
		if s == id {
			return true
		}
	}
	return false
}

// c08GenItem: a standard ID with an admissible or an inadmissible length, or an unknown ID.
func c08GenItem(label string, first *c08Item) (c08Item, bool) {
	var it c08Item
	if first != nil {
		// later items: a duplicate of the first ID (last one wins), a mileage item, or an unknown ID
		switch vrt_Choose(label+".kind", 3) {
		case 0:
			it.id = first.id
			it.content = vrt_Bytes(label+".content", len(first.content))
			if it.id == 0x05 {
				vrtKSpecial(label+".tyreZero", 1, c03IsNul, it.content)
			}
			return it, c08Admissible(it.id, len(it.content))
		case 1:
			it.id = 0x01
			it.content = vrt_Bytes(label+".content", 4)
			return it, true
		}
		it.id = vrt_Byte(label + ".unknownID")
		vrt_Assume(!c08IsStd(it.id))
		it.content = vrt_Bytes(label+".content", 2)
		return it, true
	}
	k := vrt_Choose(label+".id", len(c08StdIDs)+1)
	if k == len(c08StdIDs) {
		it.id = vrt_Byte(label + ".unknownID")
		vrt_Assume(!c08IsStd(it.id))
		it.content = vrt_Bytes(label+".content", vrt_Choose(label+".len", 4))
		return it, true
	}
	it.id = c08StdIDs[k]
	lens := []int{0, 1, 2, 3, 4, 5, 6, 7, 8}
	if it.id == 0x05 {
		lens = []int{29, 30, 31}
	}
	n := lens[vrt_Choose(label+".len", len(lens))]
	it.content = vrt_Bytes(label+".content", n)
	if it.id == 0x05 {
		// each zero pressure byte forks the decoder (zero = wheel absent): at most two zeros
		vrtKSpecial(label+".tyreZero", 2, c03IsNul, it.content)
	}
	return it, c08Admissible(it.id, n)
}

func c08CheckItem(a *T0x0200AdditionDetails, it c08Item) {
	ad, ok := a.Additions[consts.JT808LocationAdditionType(it.id)]
	vrt_Assert(ok, "additional item missing after parse")
	vrt_Assert(ad.ID == it.id && int(ad.Len) == len(it.content), "item ID/length differs")
	vrt_Assert(vrt_BytesEq(ad.Content.Data, it.content), "item bytes not preserved verbatim")
	c := it.content
	ct := &ad.Content
	switch it.id {
	case 0x01:
		vrt_Assert(ct.Mile == c08U32(c), "0x01 mileage differs")
	case 0x02:
		vrt_Assert(ct.Oil == c08U16(c), "0x02 fuel differs")
	case 0x03:
		vrt_Assert(ct.Speed == c08U16(c), "0x03 recorder speed differs")
	case 0x04:
		vrt_Assert(ct.ManualAlarm == c08U16(c), "0x04 alarm event ID differs")
	case 0x05:
		ok := true
		for k, v := range c {
			ok = vrt_And(ok, ct.TirePressure.Values[uint8(k)] == v)
		}
		vrt_Assert(ok, "0x05 tyre pressure differs")
	case 0x06:
		vrt_Assert(ct.CarTemperature == c08U16(c), "0x06 temperature differs")
	case 0x11:
		vrt_Class("kfC08AreaID0x11", len(c) == 5)
		vrt_Assert(ct.OverSpeedAlarm.LocationType == c[0], "0x11 location type differs")
		if len(c) == 5 && c[0] != 0 {
			vrt_Assert(ct.OverSpeedAlarm.AreaID == c08U32(c[1:5]), "0x11 area ID is not bytes 1-4")
		}
	case 0x12:
		vrt_Assert(ct.AreaAlarm.LocationType == c[0] && ct.AreaAlarm.AreaID == c08U32(c[1:5]) && ct.AreaAlarm.Direction == c[5], "0x12 area alarm differs")
	case 0x13:
		x := ct.DrivingTimeInsufficientAlarm
		vrt_Assert(x.RoadSectionID == c08U32(c[0:4]) && x.RoadSectionDrivingTimeSecond == c08U16(c[4:6]) && x.Result == c[6], "0x13 route time alarm differs")
	case 0x25:
		w := c08U32(c)
		e := ct.ExtendVehicleStatus
		fl := []bool{e.LowBeamSignal, e.HighBeamSignal, e.RightTurnSignal, e.LeftTurnSignal, e.BrakeSignal, e.ReverseGearSignal, e.FogLightSignal,
			e.ClearanceLights, e.HornSignal, e.AirConditionerSignal, e.NeutralSignal, e.RetarderWork, e.ABSWork, e.HeaterWork, e.ClutchStatus}
		ok := e.Value == w
		for k, f := range fl {
			ok = vrt_And(ok, f == c08Bit(w, uint(k)))
		}
		vrt_Assert(ok, "0x25 extended vehicle signals differ")
	case 0x2A:
		w := c08U16(c)
		vrt_Assert(ct.IOStatus.Value == w && ct.IOStatus.DeepSleepStatus == (w&1 == 1) && ct.IOStatus.SleepStatus == (w&2 == 2), "0x2A IO status differs")
	case 0x2B:
		vrt_Assert(ct.Analog == c08U32(c), "0x2B analog differs")
	case 0x30:
		vrt_Assert(ct.WIFISignalStrength == c[0], "0x30 signal strength differs")
	case 0x31:
		vrt_Assert(ct.GNSSPositionNum == c[0], "0x31 satellite count differs")
	}
}

// VerifC08Additions: the base block followed by up to K items with symbolic content.
func VerifC08Additions() {
	maxItems := 2
	if vrt_Tier() > 0 {
		maxItems = 3
	}
	carrier := vrt_Choose("carrier", 2)
	nItems := 1 + vrt_Choose("nitems", maxItems)
	b := vrt_Bytes("block", 28)
	vrt_Assume(c08BCDTime(b[22:28]))
	loc := append([]byte{}, b...)
	var items []c08Item
	allOK := true
	for i := 0; i < nItems; i++ {
		var first *c08Item
		if i > 0 {
			first = &items[0]
		}
		it, ok := c08GenItem("item", first)
		if !ok {
			allOK = false
		}
		items = append(items, it)
		loc = append(loc, it.id, byte(len(it.content)))
		loc = append(loc, it.content...)
	}
	var tl *T0x0200LocationItem
	var ad *T0x0200AdditionDetails
	var err error
	if carrier == 0 {
		var t T0x0200
		err = t.Parse(c03Msg(0, loc))
		tl, ad = &t.T0x0200LocationItem, &t.T0x0200AdditionDetails
	} else {
		body := []byte{0, 1, 0, byte(len(loc) >> 8), byte(len(loc))}
		body = append(body, loc...)
		var t T0x0704
		err = t.Parse(c03Msg(0, body))
		if err == nil {
			vrt_Assert(len(t.Items) == 1, "0x0704 item count differs")
			tl, ad = &t.Items[0].T0x0200LocationItem, &t.Items[0].T0x0200AdditionDetails
		}
	}
	if !allOK {
		vrt_Assert(err != nil, "item with an impossible length for its ID accepted")
		vrt_Cover("rejected-bad-length", true)
		return
	}
	vrt_Assert(err == nil, "report with admissible items rejected")
	c08CheckBase(tl, b)
	// duplicates: the last occurrence of an ID wins
	for i, it := range items {
		last := true
		for _, later := range items[i+1:] {
			if later.id == it.id {
				last = false
			}
		}
		if last {
			c08CheckItem(ad, it)
		}
	}
	vrt_Cover("duplicate-id", nItems >= 2 && items[0].id == items[1].id)
	vrt_Cover("unknown-id", !c08IsStd(items[0].id))
	vrt_Cover("in-0x0704", carrier == 1)
}
