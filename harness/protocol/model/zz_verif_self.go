//go:build verif

package model

import (
	"encoding/hex"

	"github.com/cuteLittleDevil/go-jt808/protocol/jt1078"
	"github.com/cuteLittleDevil/go-jt808/protocol/jt808"
	"github.com/cuteLittleDevil/go-jt808/shared/consts"
)

func init() {
	vrtHarnesses["VerifSelfVectors"] = VerifSelfVectors
}

// VerifSelfVectors (translator validation): the hex inputs of the repository's own tests go through
// Decode, the Parse/Encode of the message type that claims their ID, and the RTP decoder; every
// result is observed. The check replays the single (concrete) path natively and requires all
// observations to be identical, i.e. the executor interprets the real code as the compiler does.
func VerifSelfVectors() {
	k := vrt_Choose("vector", len(vrtFrameVectors)+len(vrtRTPVectors))
	if k < len(vrtFrameVectors) {
		raw, err := hex.DecodeString(vrtFrameVectors[k])
		vrt_Observe("hexok", err == nil)
		m := jt808.NewJTMessage()
		derr := m.Decode(raw)
		vrt_Observe("decoded", derr == nil)
		if derr != nil {
			return
		}
		vrt_Observe("id", m.Header.ID)
		vrt_Observe("serial", m.Header.SerialNumber)
		vrt_Observe("phone", m.Header.TerminalPhoneNo)
		vrt_Observe("body", m.Body)
		for _, ti := range vrtModelTypes {
			v := ti.New(consts.ActiveSafetyJS)
			p, ok := v.(interface {
				Protocol() consts.JT808CommandType
			})
			if !ok || uint16(p.Protocol()) != m.Header.ID {
				continue
			}
			perr := v.Parse(m)
			vrt_Observe("parsed:"+ti.Name, perr == nil)
			if perr != nil {
				continue
			}
			if e, ok := v.(interface{ Encode() []byte }); ok {
				vrt_Observe("encoded:"+ti.Name, e.Encode())
			}
			if rb, ok := v.(interface {
				ReplyBody(*jt808.JTMessage) ([]byte, error)
			}); ok {
				b, rerr := rb.ReplyBody(m)
				vrt_Observe("replyok:"+ti.Name, rerr == nil)
				vrt_Observe("reply:"+ti.Name, b)
			}
		}
		return
	}
	raw, err := hex.DecodeString(vrtRTPVectors[k-len(vrtFrameVectors)])
	vrt_Observe("hexok", err == nil)
	pk := jt1078.NewPacket()
	rest, derr := pk.Decode(raw)
	vrt_Observe("decoded", derr == nil)
	vrt_Observe("rest", rest)
	if derr == nil {
		vrt_Observe("seq", pk.Seq)
		vrt_Observe("sim", pk.Sim)
		vrt_Observe("ts", pk.Timestamp)
		vrt_Observe("payload", pk.Body)
	}
}
