//go:build verif

package model

import (
	"github.com/cuteLittleDevil/go-jt808/protocol/utils"
	"github.com/cuteLittleDevil/go-jt808/shared/consts"
)

func init() {
	vrtHarnesses["VerifC07Values"] = VerifC07Values
	vrtHarnesses["VerifC07WireRoundTrip"] = VerifC07WireRoundTrip
	vrtHarnesses["VerifC07Helpers"] = VerifC07Helpers
	vrtHarnesses["VerifC07Lists"] = VerifC07Lists
}

type c07Codec interface {
	Encode() []byte
}

// VerifC07WireRoundTrip: every value v that the wire format can represent for a type - obtained as
// the result of parsing an arbitrary body b, so v ranges over exactly the values reachable from the
// wire - satisfies Parse(Encode(v)) == v and Encode(Parse(Encode(v))) == Encode(v).
// Domain restrictions of the property: BCD timestamps (no byte carries the nibble 0xA, which is the
// only nibble whose rendering ':' is not a digit position in the textual time), GBK text limited to
// ASCII (engine model), fixed-width strings without trailing NUL (automatic: v is a parse result).
func VerifC07WireRoundTrip() {
	ti, ver, d := c03Pick()
	lens := c03Lens(ti.Name, d)
	n := lens[vrt_Choose("len", len(lens))]
	if ti.Name == "T0x0200" && n > 28 {
		return // only the base block of 0x0200 has an encoder (the property lists "0x0200 base")
	}
	body := vrt_Bytes("body", n)
	k := 0
	if n == 7 || n == 36 || n == 63 {
		k = 1
	}
	vrtKSpecial("nul", k, c03IsNul, body)
	vrtKSpecial("nibbleA", 0, c03HasNibbleA, body)
	v := ti.New(d)
	enc, ok := v.(c07Codec)
	if !ok {
		return
	}
	if v.Parse(c03Msg(ver, body)) != nil {
		return
	}
	e1 := enc.Encode()
	if e1 == nil {
		return // an Encode that is a `return nil` placeholder: not a two-way type
	}
	// domain: a parameter list that names the same parameter ID twice is not a value (the message
	// types keep parameters by ID, so the declared count and the content disagree); only the thorough
	// tier's lengths hold two parameters
	switch ti.Name {
	case "P0x8103":
		vrt_Assume(!c07DuplicateParamIDs(body, 1))
	case "T0x0104":
		vrt_Assume(!c07DuplicateParamIDs(body, 3))
	}
	w := ti.New(d)
	err := w.Parse(c03Msg(ver, e1))
	vrt_Assert(err == nil, "encoded value does not parse")
	vrt_Assert(vrt_DeepEqual(v, w), "parse(encode(v)) differs from v")
	e2 := w.(c07Codec).Encode()
	vrt_Assert(vrt_BytesEq(e1, e2), "re-encoding differs")
	vrt_Observe("encoded", e1)
	vrt_Cover("round-trip", true)
}

// c07DuplicateParamIDs walks the parameter items (ID 4 bytes, length 1 byte, value) of a body that
// the parser has accepted and tells whether an ID occurs twice.
func c07DuplicateParamIDs(body []byte, off int) bool {
	var ids []uint32
	for i := off; i+5 <= len(body); {
		id := uint32(body[i])<<24 | uint32(body[i+1])<<16 | uint32(body[i+2])<<8 | uint32(body[i+3])
		for _, x := range ids {
			if x == id {
				return true
			}
		}
		ids = append(ids, id)
		i += 5 + int(body[i+4])
	}
	return false
}

// VerifC07Lists: values built directly (not from the wire) for the list-carrying platform types,
// with list lengths 0..K and symbolic elements.
func VerifC07Lists() {
	maxLen := 2
	if vrt_Tier() > 0 {
		maxLen = 3
	}
	which := vrt_Choose("type", 3)
	// list lengths 0..maxLen, and long lists (the count is one byte on the wire: byte-typed offset
	// or length arithmetic wraps only there)
	lens := []int{0, 1, 2}
	if maxLen > 2 {
		lens = append(lens, 3)
	}
	lens = append(lens, 31, 32, 127, 255)
	n := lens[vrt_Choose("listLen", len(lens))]
	nameLen := 2
	if n > 3 && vrt_Choose("longName", 2) == 1 {
		nameLen = 49
	}
	vrt_Cover("long-list", n == 255)
	switch which {
	case 0:
		v := &P0x9212{FileNameLen: byte(nameLen), FileName: vrt_String("name", nameLen), FileType: vrt_Byte("fileType"), UploadResult: vrt_Byte("result")}
		for i := 0; i < n; i++ {
			v.P0x9212RetransmitPacketList = append(v.P0x9212RetransmitPacketList, P0x9212RetransmitPacket{DataOffset: vrt_U32("off"), DataLength: vrt_U32("len")})
		}
		v.RetransmitPacketNumber = byte(n)
		vrt_Class("type=P0x9212", true)
		e1 := v.Encode()
		w := &P0x9212{}
		err := w.Parse(c03Msg(0, e1))
		vrt_Assert(err == nil, "encoded 0x9212 does not parse")
		vrt_Assert(vrt_DeepEqual(v.P0x9212RetransmitPacketList, w.P0x9212RetransmitPacketList) || (n == 0 && len(w.P0x9212RetransmitPacketList) == 0), "0x9212 retransmit list differs after a round trip")
		vrt_Assert(vrt_BytesEq(w.Encode(), e1), "0x9212 re-encoding differs")
		vrt_Cover("9212-two-ranges", n >= 2)
	case 1:
		v := &P0x8800{MultimediaID: vrt_U32("mediaID")}
		for i := 0; i < n; i++ {
			v.AgainPackageList = append(v.AgainPackageList, vrt_U16("pkg"))
		}
		v.AgainPackageCount = byte(n)
		vrt_Class("type=P0x8800", true)
		e1 := v.Encode()
		w := &P0x8800{}
		err := w.Parse(c03Msg(0, e1))
		vrt_Assert(err == nil, "encoded 0x8800 does not parse")
		vrt_Assert(w.MultimediaID == v.MultimediaID && int(w.AgainPackageCount) == n, "0x8800 fields differ after a round trip")
		vrt_Assert(vrt_BytesEq(w.Encode(), e1), "0x8800 re-encoding differs")
		vrt_Cover("8800-empty-list", n == 0)
	case 2:
		v := &P0x8003{OriginalSerialNumber: vrt_U16("serial")}
		for i := 0; i < n; i++ {
			v.AgainPackageList = append(v.AgainPackageList, vrt_U16("pkg"))
		}
		v.AgainPackageCount = byte(n)
		vrt_Class("type=P0x8003", true)
		e1 := v.Encode()
		w := &P0x8003{}
		err := w.Parse(c03Msg(0, e1))
		vrt_Assert(err == nil, "encoded 0x8003 does not parse")
		vrt_Assert(w.OriginalSerialNumber == v.OriginalSerialNumber && int(w.AgainPackageCount) == n, "0x8003 fields differ")
		vrt_Assert(vrt_DeepEqual(v.AgainPackageList, w.AgainPackageList) || n == 0, "0x8003 list differs after a round trip")
		vrt_Assert(vrt_BytesEq(w.Encode(), e1), "0x8003 re-encoding differs")
	}
}

// VerifC07Helpers: the helpers the codecs are built from.
func VerifC07Helpers() {
	switch vrt_Choose("helper", 5) {
	case 4:
		// concrete GBK text (the real conversion functions run on these): characters whose GBK bytes
		// are not valid UTF-8, characters whose GBK bytes happen to be valid UTF-8 (lead 0xC2..0xDF,
		// trail 0x80..0xBF), ASCII mixed in, and a licence plate
		texts := []string{"测A12345678", "鲁A12345", "豫B0001", "使用学习", "京A·88888", "粤港澳", "abc测试123", "鲁"}
		u := texts[vrt_Choose("text", len(texts))]
		g := utils.UTF82GBK([]byte(u))
		vrt_Assert(len(g) > 0 && len(g) < len(u), "UTF82GBK did not produce double-byte text")
		back := utils.GBK2UTF8(g)
		vrt_Assert(string(back) == u, "GBK2UTF8(UTF82GBK(text)) differs from text")
		vrt_Assert(vrt_BytesEq(utils.UTF82GBK(back), g), "UTF82GBK(GBK2UTF8(bytes)) differs from bytes")
		// the same text through a message that carries GBK text (0x0100 licence plate)
		v := &T0x0100{ProvinceID: 31, CityID: 110, ManufacturerID: "12345", TerminalModel: "model", TerminalID: "7654321", PlateColor: 1, LicensePlateNumber: u}
		var w T0x0100
		vrt_Assert(w.Parse(c03Msg(0, v.Encode())) == nil && w.LicensePlateNumber == u, "licence plate text does not survive Encode/Parse")
		vrt_Cover("gbk-chinese", true)
	case 0:
		// BCD time: bytes -> text -> bytes
		b := vrt_Bytes("bcd", 6)
		vrt_Assume(c08BCDTime(b))
		s := utils.BCD2Time(b)
		vrt_Assert(vrt_StrEq(s, c08Time(b)), "BCD2Time differs from the standard's rendering")
		vrt_Assert(vrt_BytesEq(utils.Time2BCD(s), b), "Time2BCD(BCD2Time(b)) differs from b")
		vrt_Cover("bcd-time", true)
	case 1:
		// BCD phone rendering against the reference
		n := 6
		if vrt_Choose("v2019", 2) == 1 {
			n = 10
		}
		b := vrt_Bytes("phone", n)
		got := utils.Bcd2Dec(b)
		d := make([]byte, 0, 2*n)
		for _, x := range b {
			d = append(d, c07Hex(x>>4), c07Hex(x&0x0f))
		}
		want := string(d)
		for i := range d {
			if d[i] != '0' {
				want = string(d[i:])
				break
			}
		}
		vrt_Assert(vrt_StrEq(got, want), "Bcd2Dec differs from the reference rendering")
		vrt_Cover("bcd-phone", true)
	case 2:
		// fixed-width padding: String2FillingBytes then trimming the padding gives the text back
		n := vrt_Choose("textLen", 6)
		size := 1 + vrt_Choose("size", 6)
		txt := vrt_String("text", n)
		for i := 0; i < n; i++ {
			vrt_Assume(txt[i] != 0)
		}
		out := utils.String2FillingBytes(txt, size)
		vrt_Assert(len(out) == size, "String2FillingBytes length differs from the field width")
		for i := 0; i < size; i++ {
			if i < n {
				vrt_Assert(out[i] == txt[i], "String2FillingBytes changed a text byte")
			} else {
				vrt_Assert(out[i] == 0, "String2FillingBytes padding is not NUL")
			}
		}
		vrt_Cover("padding", n < size)
		vrt_Cover("truncation", n > size)
	case 3:
		// GBK <-> UTF-8 on the ASCII subset (the engine's model of x/text; stated bound)
		n := vrt_Choose("textLen", 5)
		b := vrt_Bytes("ascii", n)
		for _, x := range b {
			vrt_Assume(x < 0x80)
		}
		g := utils.UTF82GBK(b)
		vrt_Assert(vrt_BytesEq(utils.GBK2UTF8(g), b), "GBK2UTF8(UTF82GBK(text)) differs from text")
		vrt_Cover("gbk-ascii", n > 0)
	}
}

func c07Hex(n byte) byte {
	if n < 10 {
		return '0' + n
	}
	return 'a' + (n - 10)
}

// VerifC07Values: values built directly (not obtained from the wire, so also values the parser
// itself never produces): T0x0100 in its three layouts with text fields of length 0, 1 or the full
// field width, bytes symbolic (no NUL - that is the padding -, at most one space anywhere, ASCII
// plate): Parse(Encode(v)) gives back every field and the same bytes again.
func VerifC07Values() {
	ver := []consts.ProtocolVersionType{consts.JT808Protocol2011, consts.JT808Protocol2013, consts.JT808Protocol2019}[vrt_Choose("version", 3)]
	widths := [3]int{5, 8, 7}
	switch ver {
	case consts.JT808Protocol2013:
		widths = [3]int{5, 20, 7}
	case consts.JT808Protocol2019:
		widths = [3]int{11, 30, 30}
	}
	var texts [3][]byte
	for i, w := range widths {
		n := []int{0, 1, w}[vrt_Choose("fieldLen", 3)]
		texts[i] = vrt_Bytes("text", n)
		for _, b := range texts[i] {
			vrt_Assume(b != 0)
		}
	}
	plate := vrt_Bytes("plate", vrt_Choose("plateLen", 4))
	for _, b := range plate {
		vrt_Assume(b != 0 && b < 0x80)
	}
	vrtKSpecial("space", 1, func(b byte) bool { return b == ' ' }, texts[0], texts[1], texts[2], plate)
	v := &T0x0100{ProvinceID: vrt_U16("province"), CityID: vrt_U16("city"), ManufacturerID: string(texts[0]), TerminalModel: string(texts[1]),
		TerminalID: string(texts[2]), PlateColor: vrt_Byte("plateColor"), LicensePlateNumber: string(plate), Version: ver}
	e1 := v.Encode()
	hv := 0
	if ver == consts.JT808Protocol2019 {
		hv = 1
	}
	var w T0x0100
	vrt_Assert(w.Parse(c03Msg(hv, e1)) == nil, "encoded 0x0100 does not parse")
	vrt_Assert(w.Version == ver, "0x0100 layout not recognised after a round trip")
	vrt_Assert(w.ProvinceID == v.ProvinceID && w.CityID == v.CityID && w.PlateColor == v.PlateColor, "0x0100 numeric fields differ after a round trip")
	vrt_Assert(vrt_StrEq(w.ManufacturerID, v.ManufacturerID) && vrt_StrEq(w.TerminalModel, v.TerminalModel) && vrt_StrEq(w.TerminalID, v.TerminalID), "0x0100 text field differs after a round trip")
	vrt_Assert(vrt_StrEq(w.LicensePlateNumber, v.LicensePlateNumber), "0x0100 plate differs after a round trip")
	vrt_Assert(vrt_BytesEq(w.Encode(), e1), "0x0100 re-encoding differs")
	vrt_Cover("full-width-field", len(texts[1]) == widths[1])
	vrt_Cover("layout-2011", ver == consts.JT808Protocol2011)
}
