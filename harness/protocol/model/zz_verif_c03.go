//go:build verif

package model

import (
	"github.com/cuteLittleDevil/go-jt808/protocol/jt808"
	"github.com/cuteLittleDevil/go-jt808/shared/consts"
)

func init() {
	vrtHarnesses["VerifC03NoPanic"] = VerifC03NoPanic
	vrtHarnesses["VerifC03InSlice"] = VerifC03InSlice
	vrtHarnesses["VerifC03History"] = VerifC03History
	vrtHarnesses["VerifC03Ext"] = VerifC03Ext
}

// VerifC03Ext (T1 + T2 + T4 for the vendor extension parsers): arbitrary content of every length
// up to the bound, in an exact-capacity buffer and in one with spare capacity, with the parser's
// own ID and with any other ID.
func VerifC03Ext() {
	ti := vrtExtTypes[vrt_Choose("ext", len(vrtExtTypes))]
	vrt_Class("type="+ti.Name, true)
	max := 60
	if vrt_Tier() > 0 {
		max = 96
	}
	n := vrt_Choose("len", max+1)
	id := vrt_Byte("id")
	b1 := vrt_BytesCap("content", n, 8)
	k := 0
	if n == 41 || n == 47 || n == 49 {
		k = 1
	}
	vrtKSpecial("special", k, c03Special, b1[:n])
	exact := make([]byte, n)
	copy(exact, b1)
	v0 := ti.New()
	c0, ok0 := v0.Parse(id, exact) // exact capacity: any over-read panics
	if ok0 {
		if s, ok := c0.CustomValue.(interface{ String() string }); ok {
			_ = s.String()
		}
	}
	tail2 := vrt_Bytes("tail2", 8)
	b2 := make([]byte, n+8)
	copy(b2, b1)
	copy(b2[n:], tail2)
	v1, v2 := ti.New(), ti.New()
	_, ok1 := v1.Parse(id, b1[:n])
	_, ok2 := v2.Parse(id, b2[:n])
	vrt_Assert(ok1 == ok0 && ok2 == ok0, "acceptance depends on memory behind the slice")
	if ok1 && ok2 {
		vrt_Assert(vrt_DeepEqual(v1, v2), "parsed extension depends on memory behind the slice")
	}
	vrt_Cover("accepted", ok0)
	vrt_Cover("rejected", !ok0)
}

var c03Dialects = []consts.ActiveSafetyType{consts.ActiveSafetyJS, consts.ActiveSafetyHLJ, consts.ActiveSafetyGD, consts.ActiveSafetyHN, consts.ActiveSafetySC}

func c03Msg(ver int, body []byte) *jt808.JTMessage {
	v := consts.JT808Protocol2013
	if ver == 1 {
		v = consts.JT808Protocol2019
	}
	return &jt808.JTMessage{Header: &jt808.Header{ProtocolVersion: v, Property: &jt808.BodyProperty{}}, Body: body}
}

func c03IsNul(b byte) bool { return b == 0 }

func c03HasNibbleA(b byte) bool { return b>>4 == 10 || b&0x0f == 10 }

func c03Special(b byte) bool { return b == 0 || b>>4 == 10 || b&0x0f == 10 }

// c03Pick chooses a message type, header version and dialect; the type's name becomes the class
// under which known findings are filed.
func c03Pick() (vrtTypeInfo, int, consts.ActiveSafetyType) {
	ti := vrtModelTypes[vrt_Choose("type", len(vrtModelTypes))]
	ver := vrt_Choose("ver", 2)
	d := consts.ActiveSafetyJS
	if ti.Dialect {
		d = c03Dialects[vrt_Choose("dialect", len(c03Dialects))]
	}
	vrt_Class("type="+ti.Name, true)
	return ti, ver, d
}

// c03Caps bounds the dense length range of the TLV / count-driven parsers, whose path count grows
// with the number of items that fit (quick, thorough). Other types use the default range.
var c03Caps = map[string][2]int{
	"P0x8103": {12, 17}, "T0x0104": {14, 19}, "T0x0200": {33, 37}, "T0x0704": {38, 42}, "T0x0801": {41, 45},
	"T0x1210": {112, 124}, "P0x9208": {96, 110}, "T0x1205": {64, 90}, "P0x9206": {36, 42},
}

func c03Lens(name string, d consts.ActiveSafetyType) []int {
	var l []int
	if name == "P0x9206" && vrt_Tier() == 0 {
		// four length-prefixed strings: the number of (length, length, length) triples is cubic in n
		return []int{0, 1, 2, 3, 4, 5, 6, 7, 8, 9, 10, 11, 12, 31, 32, 33}
	}
	if name == "T0x1210" {
		// name-length x attachment-count compositions grow exponentially with the room behind the
		// fixed part: lengths up to the dialect's fixed part + 13 (room for two short names)
		min := map[consts.ActiveSafetyType]int{consts.ActiveSafetyJS: 57, consts.ActiveSafetyHLJ: 72, consts.ActiveSafetyGD: 104, consts.ActiveSafetyHN: 73, consts.ActiveSafetySC: 103}[d]
		l = []int{0, 1, 20, min - 1}
		room := 13
		if vrt_Tier() > 0 {
			room = 16
		}
		for i := 0; i <= room; i++ {
			l = append(l, min+i)
		}
		return l
	}
	if name == "P0x9208" && vrt_Tier() == 0 {
		// server-address length x body length is quadratic: sample the lengths around each dialect's minimum
		return []int{0, 1, 5, 20, 52, 53, 54, 55, 60, 68, 69, 70, 74, 75, 76, 77, 78, 80}
	}
	max, capped := 40, false
	if c, ok := c03Caps[name]; ok {
		max, capped = c[vrt_Tier()], true
	}
	for i := 0; i <= max; i++ {
		l = append(l, i)
	}
	if capped {
		return l
	}
	if vrt_Tier() > 0 {
		l = append(l, 62, 63, 64, 105, 291, 1023)
	} else {
		l = append(l, 62, 63, 64, 105, 291)
	}
	return l
}

// VerifC03NoPanic (T1 + T4): Parse of an arbitrary body in an exact-capacity buffer neither panics
// nor loops, and String() of a successfully parsed value is total. At most K bytes are NUL (the
// only byte value the trimming loops treat specially), at every combination of positions.
func VerifC03NoPanic() {
	ti, ver, d := c03Pick()
	lens := c03Lens(ti.Name, d)
	n := lens[vrt_Choose("len", len(lens))]
	body := vrt_Bytes("body", n)
	// Two byte values fork the parsers' scanning loops: NUL (trimmed from fixed-width strings) and a
	// nibble equal to 0xA (rendered as ':' in BCD times, which changes the length of the re-encoding).
	// Bound: no such byte, except on a few lengths (quick) / at most one anywhere on every length and
	// two on a few lengths (thorough); all other bytes range over every remaining value.
	k := 0
	few := n == 1 || n == 7 || n == 30 || n == 36 || n == 63 || n == 105
	if few {
		k = 1
	}
	vrtKSpecial("special", k, c03Special, body)
	v := ti.New(d)
	err := v.Parse(c03Msg(ver, body))
	vrt_Cover("parsed", err == nil)
	vrt_Cover("rejected", err != nil)
	if err == nil {
		if s, ok := v.(interface{ String() string }); ok {
			_ = s.String()
		}
	}
}

// VerifC03InSlice (T2): the outcome depends only on the bytes inside the slice: two buffers with the
// same first n bytes and independent spare capacity behind them give the same result.
func VerifC03InSlice() {
	ti, ver, d := c03Pick()
	lens := c03Lens(ti.Name, d)
	n := lens[vrt_Choose("len", len(lens))]
	b1 := vrt_BytesCap("body", n, 16)
	vrtKSpecial("nul", 0, c03IsNul, b1)
	tail2 := vrt_Bytes("tail2", 16)
	b2 := make([]byte, n+16)
	copy(b2, b1)
	copy(b2[n:], tail2)
	b2 = b2[:n]
	v1, v2 := ti.New(d), ti.New(d)
	var e1, e2 error
	p1 := vrt_Panics(func() { e1 = v1.Parse(c03Msg(ver, b1)) })
	p2 := vrt_Panics(func() { e2 = v2.Parse(c03Msg(ver, b2)) })
	vrt_Assert(p1 == p2, "panic depends on memory behind the slice")
	if p1 || p2 {
		return
	}
	vrt_Assert((e1 == nil) == (e2 == nil), "error depends on memory behind the slice")
	if e1 == nil && e2 == nil {
		vrt_Assert(vrt_DeepEqual(v1, v2), "parsed value depends on memory behind the slice")
		vrt_Cover("compared", true)
	}
}

// VerifC03History (T3): parsing b2 into a receiver that already parsed b1 gives the same result as
// parsing b2 into a fresh receiver with the same configuration.
func VerifC03History() {
	ti, ver, d := c03Pick()
	lens := []int{5, 7, 36, 62}
	if vrt_Tier() > 0 {
		lens = []int{0, 1, 2, 5, 7, 12, 36, 62, 105}
	}
	if c, ok := c03Caps[ti.Name]; ok {
		// TLV / count-driven parsers: stay within the type's dense bound
		lens = []int{1, c[0]}
		if vrt_Tier() > 0 {
			lens = []int{0, 1, c[0] - 1, c[0]}
		}
		if ti.Name == "T0x1210" {
			l := c03Lens(ti.Name, d) // 0, 1, 20, min-1, min, min+1, ...
			lens = []int{l[4], l[4+7]} // no attachment / one attachment with a 1-byte name
		}
		if ti.Name == "P0x9206" {
			lens = []int{31, 33}
		}
		if ti.Name == "P0x8103" || ti.Name == "T0x0104" {
			// one parameter per body (every parameter ID, every value); two bodies
			lens = []int{c[0] - 6, c[0] - 2}
		}
	}
	n1 := lens[vrt_Choose("len1", len(lens))]
	n2 := lens[vrt_Choose("len2", len(lens))]
	b1 := vrt_Bytes("body1", n1)
	b2 := vrt_Bytes("body2", n2)
	vrtKSpecial("nul", 0, c03IsNul, b1, b2)
	if ti.Name == "P0x8103" || ti.Name == "T0x0104" {
		// the first body's parameter ID ranges over one representative per value type plus an unknown
		// ID; the second body's over every ID
		off := 1
		if ti.Name == "T0x0104" {
			off = 3
		}
		if n1 >= off+4 {
			id1 := uint32(b1[off])<<24 | uint32(b1[off+1])<<16 | uint32(b1[off+2])<<8 | uint32(b1[off+3])
			vrt_Assume(id1 == 0x001 || id1 == 0x031 || id1 == 0x010 || id1 == 0x032 || id1 == 0x084 || id1 == 0x110 || id1 == 0x7777)
		}
	}
	used, fresh := ti.New(d), ti.New(d)
	var e0 error
	if vrt_Panics(func() { e0 = used.Parse(c03Msg(ver, b1)) }) {
		return // panics are T1's subject
	}
	if _, capped := c03Caps[ti.Name]; capped || vrt_Tier() == 0 {
		// bound: the earlier parse succeeded (a failed earlier parse is explored in the thorough tier
		// for the fixed-layout types only)
		vrt_Assume(e0 == nil)
	}
	var e1, e2 error
	if vrt_Panics(func() { e1 = used.Parse(c03Msg(ver, b2)) }) {
		return
	}
	if vrt_Panics(func() { e2 = fresh.Parse(c03Msg(ver, b2)) }) {
		return
	}
	vrt_Assert((e1 == nil) == (e2 == nil), "error of a parse depends on what the receiver parsed before")
	if e1 == nil && e2 == nil {
		vrt_Assert(vrt_DeepEqual(used, fresh), "result of a parse depends on what the receiver parsed before")
		vrt_Cover("compared", true)
	}
}
