#!/usr/bin/env python3
# Regenerates MANIFEST.json from props.json + the tables below (kept in one place so it stays valid).
import json
props = {p['id']: p for p in json.load(open('/verif/props.json'))}
TEXT = json.load(open('/verif/manifest_text.json'))
checks = []
for pid in sorted(props):
    t = TEXT.get(pid)
    if not t or not t.get('claimed'):
        continue
    checks.append({
        "property_id": pid,
        "quick_cmd": "./check %s quick" % pid,
        "thorough_cmd": "./check %s thorough" % pid,
        "evidence_file": "/verif/evidence/%s.json" % pid,
        "replay_cmd_template": "./check replay {path}",
        "engine": "gosym",
        "level_claimed": {"category": "model_checking", "text": t['level_text'], "design_ref": t.get('design_ref', 'DESIGN.md section 3')},
        "level_note": t['level_note'],
        "technique": t.get('technique', "bounded symbolic execution of the go/ssa form of the real functions; every assertion and runtime check discharged by an SMT solver (z3), counterexamples replayed natively"),
    })
na = [{"property_id": pid, "reason": t['na_reason']} for pid, t in sorted(TEXT.items()) if not t.get('claimed')]
m = {
    "version": 1,
    "setup_cmd": "cd /verif/engine && GOFLAGS=-mod=mod GOPROXY=off GOSUMDB=off GOTOOLCHAIN=local go build -o ../bin/gosym . && cd /verif && ./check selftest",
    "hooks": {
        "guard": "verif",
        "enable": "harness files tagged //go:build verif are injected at load time with packages.Config.Overlay / go test -overlay and built with -tags verif; native replays of schedules (C13) additionally use a copy of package service generated from the current tree with a vrtGate call before every channel, socket, go and sleep operation (engine/instrument.go), again through -overlay only; nothing is committed in /repo for hooks",
        "baseline_off_cmd": "for m in shared protocol service attachment terminal; do (cd /repo/$m && go test -mod=mod -vet=off -count=1 ./...); done",
        "source_commits": [],
        "add_only": True,
    },
    "engines": [{"name": "gosym", "path": "/verif/engine", "serves_properties": [c['property_id'] for c in checks],
                 "kind_free_text": "forking symbolic executor over go/ssa (x/tools v0.29.0) with QF_BV terms, state merging by predicated execution, value-set simplifier; z3 4.8.12 decides, z3 5.1.0 and cvc5 cross-check; native replay through go test -overlay"}],
    "checks": checks,
    "not_applicable": na,
    "notes": "Exit codes of ./check: 0 = every obligation on every explored path was unsat (known findings are printed as KNOWN-FINDING lines); 1 = a violation reproduced natively (VIOLATION line); 2 = inconclusive (solver unknown, unsupported construct, unwinding bound, missing cover, engine/native disagreement). Bounds per property: DESIGN.md and evidence/<id>.json.",
}
json.dump(m, open('/verif/MANIFEST.json', 'w'), indent=1)
print("claimed:", [c['property_id'] for c in checks], "n/a:", [x['property_id'] for x in na])
