#!/bin/sh
# runs every claimed check of one tier and prints a one-line summary each
tier=${1:-quick}
cd /verif || exit 2
for id in $(python3 -c "import json;print(' '.join(c['property_id'] for c in json.load(open('MANIFEST.json'))['checks']))"); do
  start=$(date +%s)
  ./check $id $tier > /tmp/check_$id.$tier.log 2>&1 < /dev/null
  rc=$?
  echo "$id $tier exit=$rc $(( $(date +%s) - start ))s $(grep -c '^KNOWN-FINDING' /tmp/check_$id.$tier.log) known $(grep -c '^VIOLATION' /tmp/check_$id.$tier.log) viol $(grep -c '^INCONCLUSIVE' /tmp/check_$id.$tier.log) inconcl"
done
