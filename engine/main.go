package main

import (
	"runtime/debug"
	"runtime/pprof"
	"time"
	"flag"
	"fmt"
	"os"
	"path/filepath"
	"strings"
)

func buildOverlay(dirs []string) (map[string][]byte, error) {
	ov := map[string][]byte{}
	pkgOf := map[string]string{}
	for _, d := range dirs {
		// files under /verif/harness/<module>/<pkg...>/ map to /repo/<module>/<pkg...>/
		err := filepath.Walk(d, func(p string, info os.FileInfo, err error) error {
			if err != nil || info.IsDir() || !strings.HasSuffix(p, ".go") {
				return err
			}
			rel, _ := filepath.Rel(harnessRoot(), p)
			if strings.HasPrefix(rel, "rt/") {
				return nil
			}
			data, err := os.ReadFile(p)
			if err != nil {
				return err
			}
			ov[filepath.Join("/repo", rel)] = data
			for _, line := range strings.Split(string(data), "\n") {
				if strings.HasPrefix(line, "package ") {
					pkgOf[filepath.Dir(rel)] = strings.TrimSpace(strings.TrimPrefix(line, "package "))
					break
				}
			}
			return nil
		})
		if err != nil {
			return nil, err
		}
	}
	rt, err := os.ReadFile(filepath.Join(harnessRoot(), "rt", "zz_verif_rt.go.tmpl"))
	if err != nil {
		return nil, err
	}
	for dir, pkg := range pkgOf {
		ov[filepath.Join("/repo", dir, "zz_verif_rt.go")] = []byte(strings.Replace(string(rt), "PKGNAME", pkg, 1))
	}
	if err := addGenerated(ov); err != nil {
		return nil, err
	}
	return ov, nil
}

func harnessRoot() string {
	if d := os.Getenv("VERIF_HARNESS_DIR"); d != "" {
		return d
	}
	return "/verif/harness"
}

func main() {
	debug.SetGCPercent(400)
	if pf := os.Getenv("VERIF_PPROF"); pf != "" {
		f, _ := os.Create(pf)
		pprof.StartCPUProfile(f)
		defer pprof.StopCPUProfile()
		go func() { time.Sleep(25 * time.Second); pprof.StopCPUProfile(); os.Exit(0) }()
	}
	if len(os.Args) < 2 {
		fmt.Println("usage: gosym <explore|check|replay|selftest> ...")
		os.Exit(2)
	}
	switch os.Args[1] {
	case "explore":
		fs := flag.NewFlagSet("explore", flag.ExitOnError)
		pkg := fs.String("pkg", "", "package import path suffix (e.g. protocol/jt808)")
		h := fs.String("harness", "", "harness function")
		tier := fs.Int("tier", 0, "0 quick, 1 thorough")
		workers := fs.Int("workers", 16, "")
		unwind := fs.Int("unwind", 3000, "")
		budget := fs.Int("budget", 0, "seconds")
		solverKind := fs.String("solver", "z3", "")
		fs.Parse(os.Args[2:])
		exploreSolver = *solverKind
		os.Exit(cmdExplore(*pkg, *h, *tier, *workers, *unwind, *budget))
	case "check":
		os.Exit(cmdCheck(os.Args[2:]))
	case "replay":
		os.Exit(cmdReplay(os.Args[2:]))
	case "selftest":
		os.Exit(cmdSelftest(os.Args[2:]))
	case "instrument":
		// print the schedule-gated copy of package service (native replay of schedules)
		m, err := instrumentedService()
		if err != nil {
			fmt.Println("error:", err)
			os.Exit(2)
		}
		for name, data := range m {
			fmt.Printf("==== %s\n%s\n", name, data)
		}
		os.Exit(0)
	}
	fmt.Println("unknown command", os.Args[1])
	os.Exit(2)
}

func cmdExplore(pkg, h string, tier, workers, unwind, budget int) int {
	ov, err := buildOverlay([]string{harnessRoot()})
	if err != nil {
		fmt.Println(err)
		return 2
	}
	prog, _, err := loadProgram(ov, []string{repoMod + pkg})
	if err != nil {
		fmt.Println(err)
		return 2
	}
	p := prog.ImportedPackage(repoMod + pkg)
	fn := p.Func(h)
	if fn == nil {
		fmt.Println("no such harness", h)
		return 2
	}
	res := exploreHarness(prog, fn, runOpts{tier: tier, unwind: unwind, maxSteps: 50_000_000, solver: exploreSolver, timeoutMS: 10000, workers: workers, budgetS: budget}, nil, nil)
	fmt.Printf("%s: paths=%d done=%d assumed=%d viol=%d unsupported=%d unwound=%d internal=%d branches=%d queries=%d solver=%.1fs wall=%.1fs\n",
		res.Name, res.Stats.paths, res.Stats.done, res.Stats.assumed, res.Stats.violations, res.Stats.unsupported, res.Stats.unwound, res.Stats.internal,
		res.Stats.branches, res.Stats.queries, res.Stats.solverTime, res.Wall)
	fmt.Println("covers:", res.Covers)
	for k, v := range res.Inconcl {
		fmt.Println("INCONCLUSIVE:", k, v)
	}
	for _, c := range res.Cands {
		s := fmt.Sprintf("%v", c.Inputs)
		if len(s) > 300 {
			s = s[:300]
		}
		fmt.Printf("CANDIDATE %s | %s | %s | inputs=%s\n", c.Key, c.Site, c.Msg, s)
	}
	return 0
}

// cmdSelftest: the three solvers answer a trivial query, the repository loads with the harness
// overlay, and a small harness runs clean and its witnesses replay natively with identical values.
func cmdSelftest(args []string) int {
	for _, kind := range []string{"z3", "z3-new", "cvc5"} {
		s, err := NewSolver(kind, 5000)
		if err != nil {
			fmt.Println("selftest: cannot start", kind, err)
			return 2
		}
		ts := NewTermStore()
		x := ts.Sym(8, "x")
		r1 := s.Check([]*Term{ts.Eq(ts.Bin(OpAdd, x, ts.Const(8, 1)), ts.Const(8, 0))}, nil)
		r2 := s.Check([]*Term{ts.Cmp(OpUlt, x, ts.Const(8, 5)), ts.Cmp(OpUlt, ts.Const(8, 7), x)}, nil)
		s.Close()
		if r1 != Sat || r2 != Unsat {
			fmt.Printf("selftest: %s gives %s/%s on the probe queries\n", kind, r1, r2)
			return 2
		}
	}
	ov, err := buildOverlay([]string{harnessRoot()})
	if err != nil {
		fmt.Println("selftest:", err)
		return 2
	}
	prog, _, err := loadProgram(ov, []string{repoMod + "protocol/model"})
	if err != nil {
		fmt.Println("selftest: load failed:", err)
		return 2
	}
	total, paths := 0, 0
	for _, hn := range []string{"VerifC07Helpers", "VerifSelfVectors"} {
		fn := prog.ImportedPackage(repoMod + "protocol/model").Func(hn)
		if fn == nil {
			fmt.Println("selftest: harness missing:", hn)
			return 2
		}
		res := exploreHarness(prog, fn, runOpts{tier: 1, unwind: 5000, maxSteps: 50_000_000, solver: "z3", timeoutMS: 10000, workers: 4, witnessAll: hn == "VerifSelfVectors"}, nil, nil)
		res.Pkg = "protocol/model"
		if len(res.Inconcl) > 0 || len(res.Cands) > 0 || res.Stats.done == 0 {
			fmt.Println("selftest:", hn, "not clean:", res.Inconcl, len(res.Cands))
			return 2
		}
		rp := &replayer{id: "selftest", root: filepath.Join(verifRoot(), "replays", "selftest")}
		os.RemoveAll(rp.root)
		ok, bad, note := rp.validateWitnesses(res.Pkg, res.Witnesses)
		os.RemoveAll(rp.root)
		if bad > 0 || ok == 0 {
			fmt.Println("selftest:", hn, "witness replay disagrees with the native build:", ok, bad, note)
			return 2
		}
		total += ok
		paths += res.Stats.paths
	}
	fmt.Printf("selftest ok: 3 solvers; %d paths; %d witnesses (incl. every hex vector of the repository's own tests, run through the executor and natively, all observed values equal)\n", paths, total)
	return 0
}

var exploreSolver = "z3"
