package main

// The check driver: runs the harnesses of one property, replays counterexamples and witnesses
// natively, cross-checks a sample of queries with other solvers, writes the evidence file and
// prints VIOLATION / KNOWN-FINDING / INCONCLUSIVE lines.

import (
	"bufio"
	"encoding/json"
	"fmt"
	"math/rand"
	"os"
	"os/exec"
	"path/filepath"
	"sort"
	"strconv"
	"strings"
	"time"
)

type harnessSpec struct {
	Pkg      string   `json:"pkg"`  // e.g. "protocol/jt808"
	Func     string   `json:"func"` // harness function
	Covers   []string `json:"covers"`
	Unwind   int      `json:"unwind"`
	Tiers    []int    `json:"tiers"` // tiers in which it runs (default both)
	Rotate   int      `json:"rotate"`
	BudgetQ  int      `json:"budget_quick_s"`
	BudgetT  int      `json:"budget_thorough_s"`
	NeedClock bool    `json:"need_clock"`
	Solver    string  `json:"solver"`
}

type propSpec struct {
	ID          string            `json:"id"`
	Harnesses   []harnessSpec     `json:"harnesses"`
	Bounds      map[string]string `json:"bounds"`
	Outside     []string          `json:"outside_bounds"`
	Assumptions []string          `json:"assumptions"`
}

func verifRoot() string {
	if d := os.Getenv("VERIF_ROOT"); d != "" {
		return d
	}
	return "/verif"
}

func loadProps() (map[string]*propSpec, error) {
	data, err := os.ReadFile(filepath.Join(verifRoot(), "props.json"))
	if err != nil {
		return nil, err
	}
	var list []*propSpec
	if err := json.Unmarshal(data, &list); err != nil {
		return nil, err
	}
	m := map[string]*propSpec{}
	for _, p := range list {
		m[p.ID] = p
	}
	return m, nil
}

func loadKnown() ([]knownFinding, error) {
	data, err := os.ReadFile(filepath.Join(verifRoot(), "known_findings.json"))
	if err != nil {
		if os.IsNotExist(err) {
			return nil, nil
		}
		return nil, err
	}
	var f struct {
		Findings []knownFinding `json:"findings"`
	}
	if err := json.Unmarshal(data, &f); err != nil {
		return nil, err
	}
	return f.Findings, nil
}

var standingAssumptions = []string{
	"go/ssa (x/tools v0.29.0) lowering of /repo's current working tree is faithful",
	"the executor's semantics of SSA instructions and Go built-ins (GOARCH=amd64: int is 64 bits)",
	"stubs/models: fmt.Sprintf/Errorf (exact verbs, otherwise opaque text), errors.Is, sync.Once, time.Now (symbolic non-decreasing clock), bytes/strings search functions (term-level models), strings.Builder, sort.Slice (insertion sort calling the real less), reflect struct-field walk, os file calls recorded not executed, log/slog no-ops, GBK conversion: identity on symbolic ASCII text, the repository's own utils.GBK2UTF8/UTF82GBK run natively on concrete text",
	"map iteration in insertion order (rotations where stated)",
	"z3 4.8.12 answers are correct (sample cross-checked with z3 5.1.0 and cvc5 1.0.x)",
	"no allocation failure, no stack exhaustion",
	"in-harness oracles are faithful readings of JT/T 808-2013/2019 and JT/T 1078-2016 as quoted in the property texts",
}

func cmdCheck(args []string) int {
	if len(args) < 1 {
		fmt.Println("usage: gosym check <property> [quick|thorough]")
		return 2
	}
	id := args[0]
	tier := 0
	tierName := "quick"
	if t := os.Getenv("VERIF_TIER"); t == "thorough" {
		tier, tierName = 1, "thorough"
	}
	if len(args) > 1 {
		if args[1] == "thorough" {
			tier, tierName = 1, "thorough"
		} else {
			tier, tierName = 0, "quick"
		}
	}
	seed := int64(1)
	if s := os.Getenv("VERIF_SEED"); s != "" {
		if v, err := strconv.ParseInt(s, 10, 64); err == nil {
			seed = v
		}
	}
	t0 := time.Now()
	props, err := loadProps()
	if err != nil {
		fmt.Println("INCONCLUSIVE property=" + id + " reason=cannot-load-props " + err.Error())
		return 2
	}
	spec, ok := props[id]
	if !ok {
		fmt.Println("INCONCLUSIVE property=" + id + " reason=unknown-property")
		return 2
	}
	known, err := loadKnown()
	if err != nil {
		fmt.Println("INCONCLUSIVE property=" + id + " reason=cannot-load-known-findings " + err.Error())
		return 2
	}
	var mine []knownFinding
	for _, k := range known {
		if k.Property == id {
			mine = append(mine, k)
		}
	}
	ov, err := buildOverlay([]string{harnessRoot()})
	if err != nil {
		fmt.Println("INCONCLUSIVE property=" + id + " reason=overlay " + err.Error())
		return 2
	}
	pkgSet := map[string]bool{}
	for _, h := range spec.Harnesses {
		pkgSet[repoMod+h.Pkg] = true
	}
	var patterns []string
	for p := range pkgSet {
		patterns = append(patterns, p)
	}
	sort.Strings(patterns)
	prog, _, err := loadProgram(ov, patterns)
	if err != nil {
		fmt.Println("INCONCLUSIVE property=" + id + " reason=load-failed " + err.Error())
		return 2
	}
	workers := 16
	if w := os.Getenv("VERIF_WORKERS"); w != "" {
		workers, _ = strconv.Atoi(w)
	}
	var results []*harnessResult
	inconclusive := []string{}
	for _, h := range spec.Harnesses {
		if len(h.Tiers) > 0 {
			run := false
			for _, t := range h.Tiers {
				if t == tier {
					run = true
				}
			}
			if !run {
				continue
			}
		}
		if only := os.Getenv("VERIF_ONLY_HARNESS"); only != "" && only != h.Func { // debugging aid
			continue
		}
		p := prog.ImportedPackage(repoMod + h.Pkg)
		if p == nil {
			inconclusive = append(inconclusive, "package not loaded: "+h.Pkg)
			continue
		}
		fn := p.Func(h.Func)
		if fn == nil {
			inconclusive = append(inconclusive, "harness not found: "+h.Func)
			continue
		}
		unwind := h.Unwind
		if unwind == 0 {
			unwind = 5000
		}
		budget := h.BudgetQ
		timeout := 10000
		if budget == 0 {
			budget = 900
		}
		if tier == 1 {
			budget = h.BudgetT
			if budget == 0 {
				budget = 1500
			}
			timeout = 30000
		}
		opt := runOpts{tier: tier, unwind: unwind, maxSteps: 200_000_000, seed: seed, solver: "z3", timeoutMS: timeout, workers: workers, budgetS: budget}
		opt.witnessAll = os.Getenv("VERIF_WITNESS_ALL") != "" // debugging aid: replay every completed path natively
		if h.Solver != "" {
			opt.solver = h.Solver
		}
		rotations := []int{0}
		if tier == 1 && h.Rotate > 0 {
			for r := 1; r <= h.Rotate; r++ {
				rotations = append(rotations, r)
			}
		}
		for _, rot := range rotations {
			opt.mapRotate = rot
			res := exploreHarness(prog, fn, opt, mine, h.Covers)
			res.Pkg = h.Pkg
			if rot > 0 {
				res.Name += fmt.Sprintf("@rot%d", rot)
			}
			results = append(results, res)
			fmt.Printf("harness %s: paths=%d done=%d assumed=%d violating=%d inconclusive=%d queries=%d solver=%.1fs wall=%.1fs\n", res.Name, res.Stats.paths,
				res.Stats.done, res.Stats.assumed, res.Stats.violations, res.Stats.unsupported+res.Stats.unwound+res.Stats.internal, res.Stats.queries, res.Stats.solverTime, res.Wall)
		}
	}
	// ---- native replay of candidates, known findings and witnesses ----
	rp := &replayer{id: id, tier: tier, root: filepath.Join(verifRoot(), "replays", id)}
	os.RemoveAll(rp.root)
	violations := 0
	knownSeen := []string{}
	tracesValidated := 0
	var samples []interface{}
	for _, res := range results {
		for k, v := range res.Inconcl {
			inconclusive = append(inconclusive, fmt.Sprintf("%s: %s (x%d)", res.Name, k, v))
		}
		for _, m := range res.Missing {
			inconclusive = append(inconclusive, fmt.Sprintf("%s: cover %q never reached (vacuity guard)", res.Name, m))
		}
		if res.Stats.done+res.Stats.violations == 0 {
			inconclusive = append(inconclusive, res.Name+": no path reached the end of the harness (vacuous)")
		}
		for _, c := range res.Cands {
			dir, out := rp.replay(res.Pkg, c)
			c.Dir = dir
			switch {
			case replayConfirms(c, out):
				violations++
				fmt.Printf("VIOLATION property=%s replay=%s\n", id, dir)
				fmt.Printf("  harness=%s kind=%s site=%s %s\n  native: %s\n", c.Harness, c.Kind, c.Site, c.Msg, trunc(out, 200))
			default:
				inconclusive = append(inconclusive, fmt.Sprintf("%s: engine-native-disagreement at %s (%s): native says %q, replay %s", res.Name, c.Site, c.Msg, out, dir))
			}
		}
		for _, c := range res.KnownSeen {
			dir, out := rp.replay(res.Pkg, c)
			c.Dir = dir
			if replayConfirms(c, out) {
				line := fmt.Sprintf("KNOWN-FINDING: property=%s %s [harness=%s class=%s replay=%s]", id, c.Known.Description, c.Harness, c.Known.Class, dir)
				fmt.Println(line)
				knownSeen = append(knownSeen, c.Known.Class+": "+c.Known.Description)
			} else {
				inconclusive = append(inconclusive, fmt.Sprintf("%s: known finding %s found by the solver but not reproduced natively (%q), replay %s", res.Name, c.Known.Class, out, dir))
			}
		}
		ok, bad, note := rp.validateWitnesses(res.Pkg, res.Witnesses)
		tracesValidated += ok
		if bad > 0 {
			inconclusive = append(inconclusive, fmt.Sprintf("%s: %d witness replays disagree with the native build: %s", res.Name, bad, note))
		}
		for i, w := range res.Witnesses {
			if i < 2 {
				smp := map[string]interface{}{"harness": w.Harness, "inputs": w.Inputs, "observed": w.Observed}
				if len(w.Sched) > 0 {
					var evs []string
					for k, e := range w.Sched {
						if k >= 60 {
							evs = append(evs, fmt.Sprintf("... (%d operations in all)", len(w.Sched)))
							break
						}
						evs = append(evs, fmt.Sprintf("g%d:%s", e.G, e.Kind))
					}
					smp["schedule"] = evs
				}
				samples = append(samples, smp)
			}
		}
	}
	// ---- solver cross-check ----
	xTotal, xDisagree, xNote := crossCheck(results, seed, tier)
	if xDisagree > 0 {
		inconclusive = append(inconclusive, fmt.Sprintf("solver disagreement on %d of %d cross-checked queries: %s", xDisagree, xTotal, xNote))
	}
	// ---- evidence ----
	ev := buildEvidence(id, tierName, seed, spec, results, violations, knownSeen, tracesValidated, samples, inconclusive, xTotal, time.Since(t0).Seconds())
	evPath := filepath.Join(verifRoot(), "evidence", id+".json")
	os.MkdirAll(filepath.Dir(evPath), 0o755)
	data, _ := json.MarshalIndent(ev, "", " ")
	if err := os.WriteFile(evPath, data, 0o644); err != nil {
		fmt.Println("INCONCLUSIVE property=" + id + " reason=cannot-write-evidence " + err.Error())
		return 2
	}
	if violations > 0 {
		return 1
	}
	if len(inconclusive) > 0 {
		sort.Strings(inconclusive)
		for i, s := range inconclusive {
			if i < 25 {
				fmt.Printf("INCONCLUSIVE property=%s reason=%s\n", id, s)
			}
		}
		return 2
	}
	fmt.Printf("OK property=%s tier=%s wall=%.1fs\n", id, tierName, time.Since(t0).Seconds())
	return 0
}

func replayConfirms(c *candidate, out string) bool {
	switch c.Kind {
	case "assert":
		return strings.HasPrefix(out, "violation ")
	case "panic":
		if strings.HasPrefix(out, "crash") {
			// a panic in another goroutine kills the native process: the runtime's message must be
			// the one the executor predicted ("site: message")
			if i := strings.LastIndex(c.Site, ": "); i >= 0 {
				return strings.Contains(out, c.Site[i+2:])
			}
			return true
		}
		return strings.HasPrefix(out, "panic ")
	case "deadlock":
		return strings.HasPrefix(out, "timeout")
	}
	return false
}

// ---- native replay ----

type replayer struct {
	id   string
	tier int
	root string
	n    int
}

type replayFile struct {
	Harness string      `json:"harness"`
	Tier    int         `json:"tier"`
	Inputs  []inputJSON `json:"inputs"`
	Kind    string      `json:"kind,omitempty"`
	Site    string      `json:"site,omitempty"`
	Msg     string      `json:"msg,omitempty"`
	Pkg     string      `json:"pkg,omitempty"`
	Sched   []schedEv   `json:"sched,omitempty"`
}

func writeOverlayFiles(dir string, sched bool) (string, error) {
	// materialise generated rt/test files and build an overlay json for `go test -overlay`
	ov, err := buildOverlay([]string{harnessRoot()})
	if err != nil {
		return "", err
	}
	tmpl, err := os.ReadFile(filepath.Join(harnessRoot(), "rt", "zz_verif_replay_test.go.tmpl"))
	if err != nil {
		return "", err
	}
	repl := map[string]string{}
	gen := filepath.Join(dir, "gen")
	os.MkdirAll(gen, 0o755)
	i := 0
	for virt, data := range ov {
		real := filepath.Join(gen, fmt.Sprintf("f%d_%s", i, filepath.Base(virt)))
		i++
		if err := os.WriteFile(real, data, 0o644); err != nil {
			return "", err
		}
		if strings.HasPrefix(virt, "/repo/service/zz_verif_") && filepath.Base(virt) != "zz_verif_rt.go" {
			// native replay: the harness's own clock reads come from the script as well
			os.WriteFile(real, []byte(strings.ReplaceAll(string(data), "time.Now()", "vrtNow()")), 0o644)
		}
		repl[virt] = real
		if filepath.Base(virt) == "zz_verif_rt.go" {
			// add the replay test next to it
			pkg := ""
			for _, line := range strings.Split(string(data), "\n") {
				if strings.HasPrefix(line, "package ") {
					pkg = strings.TrimSpace(strings.TrimPrefix(line, "package "))
					break
				}
			}
			tv := filepath.Join(filepath.Dir(virt), "zz_verif_replay_test.go")
			tr := filepath.Join(gen, fmt.Sprintf("f%d_replay_test.go", i))
			i++
			os.WriteFile(tr, []byte(strings.Replace(string(tmpl), "PKGNAME", pkg, 1)), 0o644)
			repl[tv] = tr
		}
	}
	// clock-dependent packages: rewrite time.Now in the service package sources
	extra, err := clockOverlay(gen)
	if err != nil {
		return "", err
	}
	for k, v := range extra {
		repl[k] = v
	}
	if sched {
		// schedule replay: the gated copy of package service (generated from the current tree)
		files, err := instrumentedService()
		if err != nil {
			return "", err
		}
		for name, src := range files {
			text := string(src)
			if _, clock := extra[name]; clock {
				text = strings.ReplaceAll(text, "time.Now()", "vrtNow()")
			}
			real := filepath.Join(gen, "sched_"+filepath.Base(name))
			if err := os.WriteFile(real, []byte(text), 0o644); err != nil {
				return "", err
			}
			repl[name] = real
		}
	}
	ovPath := filepath.Join(dir, "overlay.json")
	data, _ := json.MarshalIndent(map[string]interface{}{"Replace": repl}, "", " ")
	return ovPath, os.WriteFile(ovPath, data, 0o644)
}

func runGoTest(pkg, ovPath, replayTarget string, timeoutS int) string {
	cmd := exec.Command("go", "test", "-tags", "verif", "-overlay", ovPath, "-count=1", "-v", "-vet=off", "-run", "^TestVerifReplay$", "-timeout", fmt.Sprintf("%ds", timeoutS), repoMod+pkg)
	cmd.Dir = engineDir()
	cmd.Env = append(os.Environ(), "GOFLAGS=-mod=mod", "GOPROXY=off", "GOSUMDB=off", "GOTOOLCHAIN=local", "VERIF_REPLAY="+replayTarget)
	out, _ := cmd.CombinedOutput()
	return string(out)
}

func (rp *replayer) replay(pkg string, c *candidate) (string, string) {
	rp.n++
	dir := filepath.Join(rp.root, strconv.Itoa(rp.n))
	os.MkdirAll(dir, 0o755)
	rf := replayFile{Harness: c.Harness, Tier: rp.tier, Inputs: c.Inputs, Kind: c.Kind, Site: c.Site, Msg: c.Msg, Pkg: pkg, Sched: c.Sched}
	data, _ := json.MarshalIndent(rf, "", " ")
	inPath := filepath.Join(dir, "input.json")
	os.WriteFile(inPath, data, 0o644)
	out := replayDir(dir)
	return dir, out
}

// replayDir replays dir/input.json natively and returns the result text ("violation …", "panic …", "ok", …).
// A schedule replay that reports having left the recorded schedule is tried again (3 attempts).
func replayDir(dir string) string {
	res := replayDirOnce(dir)
	for a := 0; a < 2 && (strings.HasPrefix(res, "divergence goroutine") || strings.HasPrefix(res, "divergence harness_waited")); a++ {
		res = replayDirOnce(dir)
	}
	return res
}

func replayDirOnce(dir string) string {
	data, err := os.ReadFile(filepath.Join(dir, "input.json"))
	if err != nil {
		return "error " + err.Error()
	}
	var rf replayFile
	if err := json.Unmarshal(data, &rf); err != nil {
		return "error " + err.Error()
	}
	ovPath, err := writeOverlayFiles(dir, len(rf.Sched) > 0)
	if err != nil {
		return "error " + err.Error()
	}
	out := runGoTest(rf.Pkg, ovPath, filepath.Join(dir, "input.json"), 60)
	os.WriteFile(filepath.Join(dir, "native.log"), []byte(out), 0o644)
	res := ""
	sc := bufio.NewScanner(strings.NewReader(out))
	sc.Buffer(make([]byte, 1<<20), 1<<24)
	for sc.Scan() {
		line := sc.Text()
		if strings.HasPrefix(line, "VRT-RESULT ") {
			f := strings.SplitN(line, " ", 3)
			if len(f) == 3 {
				res = f[2]
			}
		}
	}
	if res == "" {
		switch {
		case strings.Contains(out, "panic: test timed out"):
			res = "timeout"
		case strings.Contains(out, "panic:") || strings.Contains(out, "fatal error:"):
			res = "crash " + firstLineWith(out, "panic:", "fatal error:")
		default:
			res = "error no result line: " + firstLineWith(out, "FAIL", "cannot", "error")
		}
	}
	return res
}

func firstLineWith(out string, keys ...string) string {
	for _, line := range strings.Split(out, "\n") {
		for _, k := range keys {
			if strings.Contains(line, k) {
				return strings.TrimSpace(line)
			}
		}
	}
	return ""
}

func (rp *replayer) validateWitnesses(pkg string, ws []*candidate) (ok, bad int, note string) {
	if len(ws) == 0 {
		return 0, 0, ""
	}
	dir := filepath.Join(rp.root, "witness-"+ws[0].Harness)
	wdir := filepath.Join(dir, "inputs")
	os.MkdirAll(wdir, 0o755)
	for i, w := range ws {
		rf := replayFile{Harness: w.Harness, Tier: rp.tier, Inputs: w.Inputs, Kind: "witness", Pkg: pkg, Sched: w.Sched}
		data, _ := json.Marshal(rf)
		os.WriteFile(filepath.Join(wdir, fmt.Sprintf("w%04d.json", i)), data, 0o644)
	}
	sched := false
	for _, w := range ws {
		sched = sched || len(w.Sched) > 0
	}
	ovPath, err := writeOverlayFiles(dir, sched)
	if err != nil {
		return 0, len(ws), err.Error()
	}
	got := map[string]string{}
	out := ""
	expectOf := func(w *candidate) string {
		var want []string
		for _, o := range w.Observed {
			want = append(want, o.Label+"="+o.Hex)
		}
		return "ok obs=" + strings.Join(want, ",")
	}
	// schedule replays depend on the native runtime honouring the recorded order at every gate; the
	// few things the gates do not control (map iteration order, socket timing) can make a replay
	// leave the schedule, which it reports as "divergence": those are replayed again (3 attempts)
	attempts := 1
	if sched {
		attempts = 3
	}
	target := wdir
	for a := 0; a < attempts; a++ {
		tmo := 300
		if os.Getenv("VERIF_WITNESS_ALL") != "" {
			tmo = 3600
		}
		out = runGoTest(pkg, ovPath, target, tmo)
		sc := bufio.NewScanner(strings.NewReader(out))
		sc.Buffer(make([]byte, 1<<20), 1<<26)
		for sc.Scan() {
			line := sc.Text()
			if strings.HasPrefix(line, "VRT-RESULT file=") {
				f := strings.SplitN(line, " ", 3)
				if len(f) == 3 {
					got[strings.TrimPrefix(f[1], "file=")] = f[2]
				}
			}
		}
		var again []string
		for i, w := range ws {
			name := fmt.Sprintf("w%04d.json", i)
			if r, has := got[name]; has && r != expectOf(w) && strings.HasPrefix(r, "divergence") {
				again = append(again, name)
			}
		}
		if len(again) == 0 || a == attempts-1 {
			break
		}
		target = filepath.Join(dir, fmt.Sprintf("retry%d", a))
		os.MkdirAll(target, 0o755)
		for _, name := range again {
			data, _ := os.ReadFile(filepath.Join(wdir, name))
			os.WriteFile(filepath.Join(target, name), data, 0o644)
		}
	}
	for i, w := range ws {
		r, has := got[fmt.Sprintf("w%04d.json", i)]
		var want []string
		for _, o := range w.Observed {
			want = append(want, o.Label+"="+o.Hex)
		}
		expect := "ok obs=" + strings.Join(want, ",")
		if has && r == expect {
			ok++
		} else {
			bad++
			if note == "" {
				note = fmt.Sprintf("witness %d: engine %q, native %q", i, expect, r)
				if !has {
					note += " | " + firstLineWith(out, "FAIL", "panic", "cannot", "error")
				}
			}
		}
	}
	if bad == 0 && os.Getenv("VERIF_KEEP_WITNESS") == "" {
		os.RemoveAll(dir)
	}
	return
}

// clockOverlay: packages whose code calls time.Now get a copy in which time.Now is replaced by
// vrtNow (defined by the harness runtime of that package) for native replay.
func clockOverlay(gen string) (map[string]string, error) {
	res := map[string]string{}
	// the default file handler's os calls are recorded, not executed, during native replay too
	if data, err := os.ReadFile("/repo/attachment/file_event.go"); err == nil {
		if _, err := os.Stat(filepath.Join(harnessRoot(), "attachment")); err == nil {
			s := strings.ReplaceAll(string(data), "os.MkdirAll(", "vrtMkdirAll(")
			s = strings.ReplaceAll(s, "os.WriteFile(", "vrtWriteFile(")
			real := filepath.Join(gen, "fs_file_event.go")
			if err := os.WriteFile(real, []byte(s), 0o644); err != nil {
				return nil, err
			}
			res["/repo/attachment/file_event.go"] = real
		}
	}
	for _, f := range []string{"/repo/service/packet_parse.go"} {
		data, err := os.ReadFile(f)
		if err != nil {
			return nil, err
		}
		s := strings.ReplaceAll(string(data), "time.Now()", "vrtNow()")
		real := filepath.Join(gen, "clock_"+filepath.Base(f))
		if err := os.WriteFile(real, []byte(s), 0o644); err != nil {
			return nil, err
		}
		res[f] = real
	}
	return res, nil
}

// ---- cross-check with other solvers ----

func crossCheck(results []*harnessResult, seed int64, tier int) (total, disagree int, note string) {
	var all []xcheck
	for _, r := range results {
		all = append(all, r.XChecks...)
	}
	if len(all) == 0 {
		return 0, 0, ""
	}
	rng := rand.New(rand.NewSource(seed))
	rng.Shuffle(len(all), func(i, j int) { all[i], all[j] = all[j], all[i] })
	limit := 60
	if tier == 1 {
		limit = 400
	}
	if len(all) > limit {
		all = all[:limit]
	}
	kinds := []string{"z3-new", "cvc5"}
	if len(all) > 0 && all[0].Decider == "cvc5-int" {
		// queries that needed the integer encoding are not re-run through bit-blasting back ends
		// (tens of seconds each); the second opinion is cvc5's other integer encoding
		kinds = []string{"cvc5-bitwise"}
	}
	for _, kind := range kinds {
		bin, args := solverArgs(kind, 20000)
		var sb strings.Builder
		if strings.HasPrefix(kind, "cvc5") {
			sb.WriteString("(set-logic ALL)\n")
		}
		for _, x := range all {
			sb.WriteString("(push 1)\n")
			sb.WriteString(x.Script)
			sb.WriteString("(check-sat)\n(pop 1)\n")
		}
		cmd := exec.Command(bin, args...)
		cmd.Stdin = strings.NewReader(sb.String())
		out, _ := cmd.CombinedOutput()
		var answers []string
		for _, line := range strings.Split(string(out), "\n") {
			line = strings.TrimSpace(line)
			if line == "sat" || line == "unsat" || line == "unknown" || line == "timeout" {
				answers = append(answers, line)
			} else if strings.HasPrefix(line, "(error") {
				disagree++
				if note == "" {
					note = kind + ": " + line
				}
			}
		}
		if len(answers) != len(all) {
			disagree++
			if note == "" {
				note = fmt.Sprintf("%s answered %d of %d queries", kind, len(answers), len(all))
			}
			continue
		}
		for i, x := range all {
			if answers[i] != x.Expect.String() && answers[i] != "unknown" && answers[i] != "timeout" && x.Expect != Unknown {
				disagree++
				if note == "" {
					note = fmt.Sprintf("%s says %s, z3 said %s", kind, answers[i], x.Expect)
				}
			}
		}
	}
	return len(all), disagree, note
}

// ---- evidence ----

func buildEvidence(id, tier string, seed int64, spec *propSpec, results []*harnessResult, violations int, knownSeen []string, traces int, samples []interface{}, inconclusive []string, xTotal int, wall float64) map[string]interface{} {
	states, transitions, obligations, queries, merges, splits := 0, 0, 0, 0, 0, 0
	solverTime := 0.0
	funcs := map[string]bool{}
	var perHarness []map[string]interface{}
	var covers []string
	outside := append([]string{}, spec.Outside...)
	for _, r := range results {
		states += r.Stats.paths
		transitions += r.Stats.branches + r.Stats.splits
		obligations += r.Stats.asserts
		queries += r.Stats.queries
		merges += r.Stats.merges
		splits += r.Stats.splits
		solverTime += r.Stats.solverTime
		for _, f := range r.Funcs {
			funcs[f] = true
		}
		for _, c := range r.Covers {
			covers = append(covers, r.Name+":"+c)
		}
		for k, v := range r.Outside {
			outside = append(outside, fmt.Sprintf("%s: %s (%d paths cut)", r.Name, k, v))
		}
		perHarness = append(perHarness, map[string]interface{}{
			"harness": r.Name, "paths": r.Stats.paths, "paths_completed": r.Stats.done, "paths_assumed_away": r.Stats.assumed,
			"paths_violating": r.Stats.violations, "paths_inconclusive": r.Stats.unsupported + r.Stats.unwound + r.Stats.internal,
			"branch_decisions": r.Stats.branches, "case_splits": r.Stats.splits, "merges": r.Stats.merges, "assertions_checked": r.Stats.asserts,
			"solver_queries": r.Stats.queries, "solver_time_s": round1(r.Stats.solverTime), "ssa_instructions_executed": r.Stats.steps,
			"max_decision_depth": r.Stats.maxDepth, "wall_s": round1(r.Wall), "witnesses_replayed": len(r.Witnesses)})
		if r.Stats.schedPaths > 0 {
			perHarness[len(perHarness)-1]["schedule_mode"] = map[string]interface{}{
				"deviation_bound": r.Stats.schedBound, "paths": r.Stats.schedPaths, "visible_operations_recorded": r.Stats.schedEvents,
				"paths_with_0_deviations": r.Stats.schedByDev[0], "paths_with_1_deviation": r.Stats.schedByDev[1], "paths_with_2_deviations": r.Stats.schedByDev[2], "paths_with_3_or_more": r.Stats.schedByDev[3],
				"fork_points": "every channel send/receive/select/close, go statement, socket Read/Write/Close, sleep, harness action and blocking point",
			}
		}
		for i, c := range r.Cands {
			if i < 2 {
				samples = append(samples, map[string]interface{}{"harness": c.Harness, "violation": c.Kind + " " + c.Site + " " + c.Msg, "inputs": c.Inputs, "replay": c.Dir})
			}
		}
		for i, c := range r.KnownSeen {
			if i < 2 {
				samples = append(samples, map[string]interface{}{"harness": c.Harness, "known_finding": c.Known.Class, "inputs": c.Inputs})
			}
		}
	}
	var fl []string
	for f := range funcs {
		fl = append(fl, f)
	}
	sort.Strings(fl)
	if len(samples) == 0 {
		samples = append(samples, "no completed path produced a witness in this run")
	}
	if states == 0 {
		states = 1
	}
	if transitions == 0 {
		transitions = 1
	}
	cov := map[string]interface{}{
		"states": states, "transitions": transitions, "traces_validated_against_impl": traces, "samples": samples,
		"obligations": obligations, "discharged": obligations - violations,
		"functions_encoded": fl, "bounds": spec.Bounds[tier], "outside_bounds": outside,
		"solver_queries": queries, "solver_time_s": round1(solverTime), "solvers": []string{"z3 4.8.12 (deciding)", "z3 5.1.0 (cross-check)", "cvc5 1.0.x (cross-check)"},
		"cross_checked_queries": xTotal, "merges": merges, "case_splits": splits, "covers_reached": covers,
		"known_findings_seen": knownSeen, "harnesses": perHarness, "inconclusive": inconclusive, "exhaustive": false,
		"explanation": "states = symbolic paths explored (in schedule mode a path is also one schedule); transitions = branch decisions + case splits; obligations = assertions and implicit runtime checks met on those paths, each decided for all values of the symbolic inputs within the bounds - by the SMT solver, or by the executor's simplifier and value sets where the condition is already forced by the path (solver_queries counts what reached the solver: branch feasibility, case splits, assertions)",
	}
	return map[string]interface{}{
		"property_id": id, "tier": tier, "seed": seed, "level": "model_checking", "coverage": cov,
		"assumptions": append(append([]string{}, standingAssumptions...), spec.Assumptions...),
		"wall_s": round1(wall), "violations": violations,
	}
}

func round1(f float64) float64 { return float64(int(f*10+0.5)) / 10 }

func cmdReplay(args []string) int {
	if len(args) < 1 {
		fmt.Println("usage: gosym replay <dir>")
		return 2
	}
	out := replayDir(args[0])
	fmt.Println("native result:", out)
	data, _ := os.ReadFile(filepath.Join(args[0], "input.json"))
	var rf replayFile
	json.Unmarshal(data, &rf)
	c := &candidate{Kind: rf.Kind}
	if replayConfirms(c, out) {
		fmt.Printf("REPRODUCED kind=%s site=%s\n", rf.Kind, rf.Site)
		return 1
	}
	return 0
}

func trunc(s string, n int) string {
	if len(s) > n {
		return s[:n] + "…"
	}
	return s
}
