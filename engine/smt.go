package main

// Long-lived SMT solver process (z3 -in by default). Terms are sent as define-funs named by
// structural hash with global declarations, so assertions of different paths share definitions.

import (
	"os"
	"sort"
	"bufio"
	"fmt"
	"io"
	"os/exec"
	"strconv"
	"strings"
	"time"
)

type Solver struct {
	cmd      *exec.Cmd
	in       io.WriteCloser
	out      *bufio.Reader
	defined  map[string]int // name -> assertion-stack level at which it was defined
	declared map[string]int
	stack    []string // hnames / refs of asserted pc conjuncts, one push level each
	queries  int
	timeS    float64
	kind     string
	timeout  int
	unknowns int
	dumpN    int
	valueS   float64
	errors   int
	buf      strings.Builder
}

type SatResult int

const (
	Unsat SatResult = iota
	Sat
	Unknown
)

func (r SatResult) String() string { return [...]string{"unsat", "sat", "unknown"}[r] }

func solverArgs(kind string, timeoutMS int) (string, []string) {
	switch kind {
	case "z3-new":
		return "z3-new", []string{"-in", fmt.Sprintf("-t:%d", timeoutMS)}
	case "cvc5":
		return "cvc5", []string{"--incremental", "--lang=smt2", fmt.Sprintf("--tlimit-per=%d", timeoutMS), "--produce-models"}
	case "cvc5-bitwise":
		return "cvc5", []string{"--incremental", "--lang=smt2", fmt.Sprintf("--tlimit-per=%d", timeoutMS), "--produce-models", "--solve-bv-as-int=bitwise"}
	case "cvc5-int":
		// bit-vector arithmetic solved over the integers (keeps the mod-2^k semantics): decides the
		// interval/offset arithmetic kernels that bit-blasting does not finish
		return "cvc5", []string{"--incremental", "--lang=smt2", fmt.Sprintf("--tlimit-per=%d", timeoutMS), "--produce-models", "--solve-bv-as-int=sum"}
	}
	return "z3", []string{"-in", fmt.Sprintf("-t:%d", timeoutMS)}
}

func NewSolver(kind string, timeoutMS int) (*Solver, error) {
	bin, args := solverArgs(kind, timeoutMS)
	cmd := exec.Command(bin, args...)
	in, err := cmd.StdinPipe()
	if err != nil {
		return nil, err
	}
	out, err := cmd.StdoutPipe()
	if err != nil {
		return nil, err
	}
	cmd.Stderr = cmd.Stdout
	if err := cmd.Start(); err != nil {
		return nil, err
	}
	s := &Solver{cmd: cmd, in: in, out: bufio.NewReaderSize(out, 1<<16), defined: map[string]int{}, declared: map[string]int{}, kind: kind, timeout: timeoutMS}
	if kind == "cvc5" || kind == "cvc5-int" {
		s.send("(set-logic ALL)\n")
	}
	return s, nil
}

func (s *Solver) Close() {
	if s == nil || s.cmd == nil {
		return
	}
	s.in.Close()
	s.cmd.Process.Kill()
	s.cmd.Wait()
	s.cmd = nil
}

func (s *Solver) send(str string) {
	if smtLog != nil {
		smtLog.WriteString(str)
	}
	io.WriteString(s.in, str)
}

var smtLog = func() *os.File {
	if p := os.Getenv("VERIF_SMTLOG"); p != "" {
		f, _ := os.Create(p)
		return f
	}
	return nil
}()

// declareSyms declares the symbols of t that the solver does not know yet (at the current level).
func (s *Solver) declareSyms(t *Term) {
	seen := map[*Term]bool{}
	st := []*Term{t}
	for len(st) > 0 {
		x := st[len(st)-1]
		st = st[:len(st)-1]
		if x == nil || seen[x] || x.op == OpConst {
			continue
		}
		seen[x] = true
		if x.op == OpSym {
			if _, ok := s.declared[x.name]; !ok {
				s.declared[x.name] = len(s.stack)
				fmt.Fprintf(&s.buf, "(declare-const %s %s)\n", symSMTName(x.name), sortOf(x.w))
			}
			continue
		}
		st = append(st, x.a, x.b, x.c)
	}
}

// define is kept for call sites that only need the symbols declared.
func (s *Solver) define(t *Term) { s.declareSyms(t) }

// PrintTerm renders t as one closed SMT-LIB term; subterms used more than once are let-bound so the
// solver receives the DAG, not a tree.
func PrintTerm(t *Term) string {
	if t.op == OpConst || t.op == OpSym {
		return t.ref()
	}
	// reference counts within the DAG of t
	refs := map[*Term]int{}
	var order []*Term // post-order of non-leaf nodes
	type item struct {
		t    *Term
		done bool
	}
	st := []item{{t, false}}
	for len(st) > 0 {
		it := st[len(st)-1]
		st = st[:len(st)-1]
		x := it.t
		if x == nil || x.op == OpConst || x.op == OpSym {
			continue
		}
		if it.done {
			order = append(order, x)
			continue
		}
		refs[x]++
		if refs[x] > 1 {
			continue
		}
		st = append(st, item{x, true})
		st = append(st, item{x.c, false}, item{x.b, false}, item{x.a, false})
	}
	names := map[*Term]string{}
	var pr func(x *Term) string
	pr = func(x *Term) string {
		if x.op == OpConst || x.op == OpSym {
			return x.ref()
		}
		if n, ok := names[x]; ok {
			return n
		}
		switch x.op {
		case OpExtract:
			return fmt.Sprintf("((_ extract %d %d) %s)", x.k>>8, x.k&0xff, pr(x.a))
		case OpZExt:
			return fmt.Sprintf("((_ zero_extend %d) %s)", x.w-x.a.w, pr(x.a))
		case OpSExt:
			return fmt.Sprintf("((_ sign_extend %d) %s)", x.w-x.a.w, pr(x.a))
		case OpNot, OpNeg, OpBNot:
			return "(" + opNames[x.op] + " " + pr(x.a) + ")"
		case OpIte:
			return "(ite " + pr(x.a) + " " + pr(x.b) + " " + pr(x.c) + ")"
		}
		return "(" + opNames[x.op] + " " + pr(x.a) + " " + pr(x.b) + ")"
	}
	var sb strings.Builder
	nlet := 0
	for _, x := range order {
		if refs[x] > 1 && x != t {
			body := pr(x)
			n := fmt.Sprintf("l%d", nlet)
			nlet++
			fmt.Fprintf(&sb, "(let ((%s %s)) ", n, body)
			names[x] = n
		}
	}
	sb.WriteString(pr(t))
	for i := 0; i < nlet; i++ {
		sb.WriteString(")")
	}
	return sb.String()
}

func (s *Solver) flush() {
	if s.buf.Len() > 0 {
		s.send(s.buf.String())
		s.buf.Reset()
	}
}

// SyncPC makes the solver's assertion stack equal to pc (one push level per conjunct).
func (s *Solver) SyncPC(pc []*Term) {
	n := 0
	for n < len(pc) && n < len(s.stack) && s.stack[n] == pc[n].ref() {
		n++
	}
	if n < len(s.stack) {
		fmt.Fprintf(&s.buf, "(pop %d)\n", len(s.stack)-n)
		s.stack = s.stack[:n]
		for k, l := range s.declared {
			if l > n {
				delete(s.declared, k)
			}
		}
	}
	for _, t := range pc[n:] {
		s.buf.WriteString("(push 1)\n")
		s.stack = append(s.stack, t.ref())
		s.declareSyms(t)
		fmt.Fprintf(&s.buf, "(assert %s)\n", PrintTerm(t))
	}
}

func (s *Solver) readLine() (string, error) {
	line, err := s.out.ReadString('\n')
	return strings.TrimSpace(line), err
}

// Check asks whether pc ∧ extra is satisfiable.
func (s *Solver) Check(pc []*Term, extra *Term) SatResult {
	if extra != nil && extra.IsFalse() {
		return Unsat
	}
	t0 := time.Now()
	s.SyncPC(pc)
	scoped := false
	if extra != nil && !extra.IsTrue() {
		// the query literal lives in its own scope (symbols declared inside are forgotten with it)
		s.buf.WriteString("(push 1)\n")
		s.stack = append(s.stack, "?query")
		s.declareSyms(extra)
		fmt.Fprintf(&s.buf, "(assert %s)\n(check-sat)\n", PrintTerm(extra))
		scoped = true
	} else {
		s.buf.WriteString("(check-sat)\n")
	}
	_ = scoped
	s.flush()
	s.queries++
	res := Unknown
	for {
		line, err := s.readLine()
		if err != nil {
			s.errors++
			res = Unknown
			break
		}
		if line == "" {
			continue
		}
		if line == "sat" {
			res = Sat
			break
		}
		if line == "unsat" {
			res = Unsat
			break
		}
		if line == "unknown" || line == "timeout" {
			res = Unknown
			s.unknowns++
			break
		}
		if strings.HasPrefix(line, "(error") {
			s.errors++
			fmt.Println("SOLVER-ERROR:", line)
			// keep reading: the check-sat answer still follows
			continue
		}
	}
	dt := time.Since(t0).Seconds()
	s.timeS += dt
	if dumpDir != "" && dt > 3 {
		s.dumpN++
		os.WriteFile(fmt.Sprintf("%s/q%d_%d_%s.smt2", dumpDir, os.Getpid(), s.dumpN, res), []byte(Standalone(pc, extra)+"(check-sat)\n"), 0o644)
	}
	return res
}

var dumpDir = os.Getenv("VERIF_DUMPQ")

// Model fetches values for the given symbols after a Sat answer. The query must be repeated
// with the extra literal asserted because check-sat-assuming models are available directly.
func (s *Solver) Model(syms map[string]uint8) map[string]uint64 {
	res := map[string]uint64{}
	if len(syms) == 0 {
		return res
	}
	var names []string
	for n := range syms {
		if _, ok := s.declared[n]; ok {
			names = append(names, n)
		}
	}
	if len(names) == 0 {
		return res
	}
	// chunk to keep lines moderate
	for i := 0; i < len(names); i += 200 {
		j := i + 200
		if j > len(names) {
			j = len(names)
		}
		var sb strings.Builder
		sb.WriteString("(get-value (")
		for _, n := range names[i:j] {
			sb.WriteString(symSMTName(n))
			sb.WriteString(" ")
		}
		sb.WriteString("))\n")
		s.send(sb.String())
		// read until parentheses balance
		depth := 0
		var acc strings.Builder
		started := false
		for {
			line, err := s.readLine()
			if err != nil {
				return res
			}
			acc.WriteString(line)
			acc.WriteString(" ")
			inBar := false
			for _, ch := range line {
				if ch == '|' {
					inBar = !inBar
				}
				if inBar {
					continue
				}
				if ch == '(' {
					depth++
					started = true
				} else if ch == ')' {
					depth--
				}
			}
			if started && depth <= 0 {
				break
			}
		}
		parseModel(acc.String(), res)
	}
	return res
}

func parseModel(txt string, res map[string]uint64) {
	// entries look like (|name| #x1f) or (|name| #b0101) or (|name| true)
	for {
		i := strings.Index(txt, "(|")
		if i < 0 {
			return
		}
		txt = txt[i+2:]
		j := strings.Index(txt, "|")
		if j < 0 {
			return
		}
		name := txt[:j]
		txt = txt[j+1:]
		k := strings.Index(txt, ")")
		if k < 0 {
			return
		}
		val := strings.TrimSpace(txt[:k])
		txt = txt[k+1:]
		switch {
		case strings.HasPrefix(val, "#x"):
			v, _ := strconv.ParseUint(val[2:], 16, 64)
			res[name] = v
		case strings.HasPrefix(val, "#b"):
			v, _ := strconv.ParseUint(val[2:], 2, 64)
			res[name] = v
		case val == "true":
			res[name] = 1
		case val == "false":
			res[name] = 0
		case strings.HasPrefix(val, "(_ bv"):
			f := strings.Fields(val[5:])
			v, _ := strconv.ParseUint(f[0], 10, 64)
			res[name] = v
		}
	}
}

// CheckModel: sat check and, when sat, a model of the given symbols (query is pc ∧ extra).
func (s *Solver) CheckModel(pc []*Term, extra *Term, syms map[string]uint8) (SatResult, map[string]uint64) {
	if extra != nil && !extra.IsTrue() {
		pc2 := append(append([]*Term{}, pc...), extra)
		r := s.Check(pc2, nil)
		if r != Sat {
			return r, nil
		}
		return r, s.Model(syms)
	}
	r := s.Check(pc, nil)
	if r != Sat {
		return r, nil
	}
	return r, s.Model(syms)
}

// Standalone renders pc ∧ extra as a self-contained SMT-LIB script body (no check-sat).
func Standalone(pc []*Term, extra *Term) string {
	var sb strings.Builder
	all := append([]*Term{}, pc...)
	if extra != nil {
		all = append(all, extra)
	}
	syms := map[string]uint8{}
	seen := map[*Term]bool{}
	for _, t := range all {
		Syms(t, seen, syms)
	}
	names := make([]string, 0, len(syms))
	for n := range syms {
		names = append(names, n)
	}
	sort.Strings(names)
	for _, n := range names {
		fmt.Fprintf(&sb, "(declare-const %s %s)\n", symSMTName(n), sortOf(syms[n]))
	}
	for _, t := range all {
		fmt.Fprintf(&sb, "(assert %s)\n", PrintTerm(t))
	}
	return sb.String()
}

// Value returns the value of a term in the current model (after a Sat answer).
func (s *Solver) Value(t *Term) (uint64, bool) {
	if t.IsConst() {
		return t.k, true
	}
	t0 := time.Now()
	defer func() { s.timeS += time.Since(t0).Seconds(); s.valueS += time.Since(t0).Seconds() }()
	s.declareSyms(t)
	s.flush()
	s.send("(get-value (" + PrintTerm(t) + "))\n")
	line, err := s.readLine()
	if err != nil {
		return 0, false
	}
	// ((name value))
	i := strings.LastIndex(line, " ")
	if i < 0 {
		return 0, false
	}
	val := strings.TrimRight(line[i+1:], ")")
	switch {
	case strings.HasPrefix(val, "#x"):
		v, err := strconv.ParseUint(val[2:], 16, 64)
		return v, err == nil
	case strings.HasPrefix(val, "#b"):
		v, err := strconv.ParseUint(val[2:], 2, 64)
		return v, err == nil
	case val == "true":
		return 1, true
	case val == "false":
		return 0, true
	}
	return 0, false
}
