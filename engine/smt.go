package main

// Long-lived SMT solver process (z3 -in by default). Terms are sent as define-funs named by
// structural hash with global declarations, so assertions of different paths share definitions.

import (
	"os"
	"bufio"
	"fmt"
	"io"
	"os/exec"
	"strconv"
	"strings"
	"time"
)

type Solver struct {
	cmd      *exec.Cmd
	in       io.WriteCloser
	out      *bufio.Reader
	defined  map[string]int // name -> assertion-stack level at which it was defined
	declared map[string]int
	stack    []string // hnames / refs of asserted pc conjuncts, one push level each
	queries  int
	timeS    float64
	kind     string
	timeout  int
	unknowns int
	dumpN    int
	valueS   float64
	errors   int
	buf      strings.Builder
}

type SatResult int

const (
	Unsat SatResult = iota
	Sat
	Unknown
)

func (r SatResult) String() string { return [...]string{"unsat", "sat", "unknown"}[r] }

func solverArgs(kind string, timeoutMS int) (string, []string) {
	switch kind {
	case "z3-new":
		return "z3-new", []string{"-in", fmt.Sprintf("-t:%d", timeoutMS)}
	case "cvc5":
		return "cvc5", []string{"--incremental", "--lang=smt2", fmt.Sprintf("--tlimit-per=%d", timeoutMS), "--produce-models"}
	}
	return "z3", []string{"-in", fmt.Sprintf("-t:%d", timeoutMS)}
}

func NewSolver(kind string, timeoutMS int) (*Solver, error) {
	bin, args := solverArgs(kind, timeoutMS)
	cmd := exec.Command(bin, args...)
	in, err := cmd.StdinPipe()
	if err != nil {
		return nil, err
	}
	out, err := cmd.StdoutPipe()
	if err != nil {
		return nil, err
	}
	cmd.Stderr = cmd.Stdout
	if err := cmd.Start(); err != nil {
		return nil, err
	}
	s := &Solver{cmd: cmd, in: in, out: bufio.NewReaderSize(out, 1<<16), defined: map[string]int{}, declared: map[string]int{}, kind: kind, timeout: timeoutMS}
	if kind == "cvc5" {
		s.send("(set-logic QF_BV)\n")
	}
	return s, nil
}

func (s *Solver) Close() {
	if s == nil || s.cmd == nil {
		return
	}
	s.in.Close()
	s.cmd.Process.Kill()
	s.cmd.Wait()
	s.cmd = nil
}

func (s *Solver) send(str string) {
	if smtLog != nil {
		smtLog.WriteString(str)
	}
	io.WriteString(s.in, str)
}

var smtLog = func() *os.File {
	if p := os.Getenv("VERIF_SMTLOG"); p != "" {
		f, _ := os.Create(p)
		return f
	}
	return nil
}()

// define emits definitions for t and everything below it (iteratively, to avoid deep recursion).
func (s *Solver) define(t *Term) {
	if t.op == OpConst {
		return
	}
	type item struct {
		t    *Term
		done bool
	}
	st := []item{{t, false}}
	for len(st) > 0 {
		it := st[len(st)-1]
		st = st[:len(st)-1]
		x := it.t
		if x.op == OpConst {
			continue
		}
		if x.op == OpSym {
			if _, ok := s.declared[x.name]; !ok {
				s.declared[x.name] = len(s.stack)
				fmt.Fprintf(&s.buf, "(declare-const %s %s)\n", symSMTName(x.name), sortOf(x.w))
			}
			continue
		}
		hn := x.hname()
		if _, ok := s.defined[hn]; ok {
			continue
		}
		if it.done {
			s.defined[hn] = len(s.stack)
			fmt.Fprintf(&s.buf, "(define-fun %s () %s %s)\n", hn, sortOf(x.w), x.body())
			continue
		}
		st = append(st, item{x, true})
		for _, c := range []*Term{x.a, x.b, x.c} {
			if c != nil {
				st = append(st, item{c, false})
			}
		}
	}
}

func (s *Solver) flush() {
	if s.buf.Len() > 0 {
		s.send(s.buf.String())
		s.buf.Reset()
	}
}

// SyncPC makes the solver's assertion stack equal to pc (one push level per conjunct).
func (s *Solver) SyncPC(pc []*Term) {
	n := 0
	for n < len(pc) && n < len(s.stack) && s.stack[n] == pc[n].ref() {
		n++
	}
	if n < len(s.stack) {
		fmt.Fprintf(&s.buf, "(pop %d)\n", len(s.stack)-n)
		s.stack = s.stack[:n]
		for k, l := range s.defined {
			if l > n {
				delete(s.defined, k)
			}
		}
		for k, l := range s.declared {
			if l > n {
				delete(s.declared, k)
			}
		}
	}
	for _, t := range pc[n:] {
		s.buf.WriteString("(push 1)\n")
		s.stack = append(s.stack, t.ref())
		s.define(t)
		fmt.Fprintf(&s.buf, "(assert %s)\n", t.ref())
	}
}

func (s *Solver) readLine() (string, error) {
	line, err := s.out.ReadString('\n')
	return strings.TrimSpace(line), err
}

// Check asks whether pc ∧ extra is satisfiable.
func (s *Solver) Check(pc []*Term, extra *Term) SatResult {
	if extra != nil && extra.IsFalse() {
		return Unsat
	}
	t0 := time.Now()
	s.SyncPC(pc)
	if extra != nil && !extra.IsTrue() {
		s.define(extra)
		fmt.Fprintf(&s.buf, "(check-sat-assuming (%s))\n", extra.ref())
	} else {
		s.buf.WriteString("(check-sat)\n")
	}
	s.flush()
	s.queries++
	res := Unknown
	for {
		line, err := s.readLine()
		if err != nil {
			s.errors++
			res = Unknown
			break
		}
		if line == "" {
			continue
		}
		if line == "sat" {
			res = Sat
			break
		}
		if line == "unsat" {
			res = Unsat
			break
		}
		if line == "unknown" || line == "timeout" {
			res = Unknown
			s.unknowns++
			break
		}
		if strings.HasPrefix(line, "(error") {
			s.errors++
			fmt.Println("SOLVER-ERROR:", line)
			// keep reading: the check-sat answer still follows
			continue
		}
	}
	dt := time.Since(t0).Seconds()
	s.timeS += dt
	if dumpDir != "" && dt > 2 {
		s.dumpN++
		os.WriteFile(fmt.Sprintf("%s/q%d_%d_%s.smt2", dumpDir, os.Getpid(), s.dumpN, res), []byte(Standalone(pc, extra)+"(check-sat)\n"), 0o644)
	}
	return res
}

var dumpDir = os.Getenv("VERIF_DUMPQ")

// Model fetches values for the given symbols after a Sat answer. The query must be repeated
// with the extra literal asserted because check-sat-assuming models are available directly.
func (s *Solver) Model(syms map[string]uint8) map[string]uint64 {
	res := map[string]uint64{}
	if len(syms) == 0 {
		return res
	}
	var names []string
	for n := range syms {
		if _, ok := s.declared[n]; ok {
			names = append(names, n)
		}
	}
	if len(names) == 0 {
		return res
	}
	// chunk to keep lines moderate
	for i := 0; i < len(names); i += 200 {
		j := i + 200
		if j > len(names) {
			j = len(names)
		}
		var sb strings.Builder
		sb.WriteString("(get-value (")
		for _, n := range names[i:j] {
			sb.WriteString(symSMTName(n))
			sb.WriteString(" ")
		}
		sb.WriteString("))\n")
		s.send(sb.String())
		// read until parentheses balance
		depth := 0
		var acc strings.Builder
		started := false
		for {
			line, err := s.readLine()
			if err != nil {
				return res
			}
			acc.WriteString(line)
			acc.WriteString(" ")
			inBar := false
			for _, ch := range line {
				if ch == '|' {
					inBar = !inBar
				}
				if inBar {
					continue
				}
				if ch == '(' {
					depth++
					started = true
				} else if ch == ')' {
					depth--
				}
			}
			if started && depth <= 0 {
				break
			}
		}
		parseModel(acc.String(), res)
	}
	return res
}

func parseModel(txt string, res map[string]uint64) {
	// entries look like (|name| #x1f) or (|name| #b0101) or (|name| true)
	for {
		i := strings.Index(txt, "(|")
		if i < 0 {
			return
		}
		txt = txt[i+2:]
		j := strings.Index(txt, "|")
		if j < 0 {
			return
		}
		name := txt[:j]
		txt = txt[j+1:]
		k := strings.Index(txt, ")")
		if k < 0 {
			return
		}
		val := strings.TrimSpace(txt[:k])
		txt = txt[k+1:]
		switch {
		case strings.HasPrefix(val, "#x"):
			v, _ := strconv.ParseUint(val[2:], 16, 64)
			res[name] = v
		case strings.HasPrefix(val, "#b"):
			v, _ := strconv.ParseUint(val[2:], 2, 64)
			res[name] = v
		case val == "true":
			res[name] = 1
		case val == "false":
			res[name] = 0
		case strings.HasPrefix(val, "(_ bv"):
			f := strings.Fields(val[5:])
			v, _ := strconv.ParseUint(f[0], 10, 64)
			res[name] = v
		}
	}
}

// CheckModel: sat check and, when sat, a model of the given symbols (query is pc ∧ extra).
func (s *Solver) CheckModel(pc []*Term, extra *Term, syms map[string]uint8) (SatResult, map[string]uint64) {
	if extra != nil && !extra.IsTrue() {
		pc2 := append(append([]*Term{}, pc...), extra)
		r := s.Check(pc2, nil)
		if r != Sat {
			return r, nil
		}
		return r, s.Model(syms)
	}
	r := s.Check(pc, nil)
	if r != Sat {
		return r, nil
	}
	return r, s.Model(syms)
}

// Standalone renders pc ∧ extra as a self-contained SMT-LIB script body (no check-sat).
func Standalone(pc []*Term, extra *Term) string {
	var sb strings.Builder
	seen := map[string]bool{}
	var emit func(t *Term)
	emit = func(t *Term) {
		if t == nil || t.op == OpConst {
			return
		}
		key := t.ref()
		if seen[key] {
			return
		}
		seen[key] = true
		if t.op == OpSym {
			fmt.Fprintf(&sb, "(declare-const %s %s)\n", symSMTName(t.name), sortOf(t.w))
			return
		}
		emit(t.a)
		emit(t.b)
		emit(t.c)
		fmt.Fprintf(&sb, "(define-fun %s () %s %s)\n", t.hname(), sortOf(t.w), t.body())
	}
	all := append([]*Term{}, pc...)
	if extra != nil {
		all = append(all, extra)
	}
	for _, t := range all {
		emit(t)
	}
	for _, t := range all {
		fmt.Fprintf(&sb, "(assert %s)\n", t.ref())
	}
	return sb.String()
}

// Value returns the value of a term in the current model (after a Sat answer).
func (s *Solver) Value(t *Term) (uint64, bool) {
	if t.IsConst() {
		return t.k, true
	}
	t0 := time.Now()
	defer func() { s.timeS += time.Since(t0).Seconds(); s.valueS += time.Since(t0).Seconds() }()
	s.define(t)
	s.flush()
	s.send("(get-value (" + t.ref() + "))\n")
	line, err := s.readLine()
	if err != nil {
		return 0, false
	}
	// ((name value))
	i := strings.LastIndex(line, " ")
	if i < 0 {
		return 0, false
	}
	val := strings.TrimRight(line[i+1:], ")")
	switch {
	case strings.HasPrefix(val, "#x"):
		v, err := strconv.ParseUint(val[2:], 16, 64)
		return v, err == nil
	case strings.HasPrefix(val, "#b"):
		v, err := strconv.ParseUint(val[2:], 2, 64)
		return v, err == nil
	case val == "true":
		return 1, true
	case val == "false":
		return 0, true
	}
	return 0, false
}
