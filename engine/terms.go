package main

// Bit-vector / boolean term DAG with eager simplification.
// Width 0 = boolean. Widths 1..64 = bit-vectors. Terms are hash-consed per TermStore
// (one store per explored path); identity across paths and towards the solver is the
// 128-bit structural hash.

import (
	"fmt"
	"math/bits"
	"strings"
)

type Op uint8

const (
	OpConst Op = iota
	OpSym
	OpAdd
	OpSub
	OpMul
	OpUDiv
	OpURem
	OpSDiv
	OpSRem
	OpAnd
	OpOr
	OpXor
	OpNot
	OpNeg
	OpShl
	OpLShr
	OpAShr
	OpConcat
	OpExtract // k = hi<<8 | lo
	OpZExt
	OpSExt
	OpIte
	OpEq
	OpUlt
	OpUle
	OpSlt
	OpSle
	OpBAnd
	OpBOr
	OpBNot
)

var opNames = map[Op]string{OpAdd: "bvadd", OpSub: "bvsub", OpMul: "bvmul", OpUDiv: "bvudiv", OpURem: "bvurem",
	OpSDiv: "bvsdiv", OpSRem: "bvsrem", OpAnd: "bvand", OpOr: "bvor", OpXor: "bvxor", OpNot: "bvnot", OpNeg: "bvneg",
	OpShl: "bvshl", OpLShr: "bvlshr", OpAShr: "bvashr", OpConcat: "concat", OpIte: "ite", OpEq: "=", OpUlt: "bvult",
	OpUle: "bvule", OpSlt: "bvslt", OpSle: "bvsle", OpBAnd: "and", OpBOr: "or", OpBNot: "not"}

type Term struct {
	op      Op
	w       uint8
	a, b, c *Term
	k       uint64
	name    string
	h1, h2  uint64
	id      int
	tab     []uint64 // value table over the single symbol (lazily computed)
	single  *Term // the only symbol this term depends on, when that is a single 8-bit symbol
	multi   bool  // depends on several symbols or on a non-byte symbol
}

type termKey struct {
	op      Op
	w       uint8
	a, b, c int
	k       uint64
	name    string
}

type TermStore struct {
	tab   map[termKey]*Term
	next  int
	tt    *Term
	ff    *Term
	subst map[*Term]*Term // symbols fixed to a constant by the path condition
}

func NewTermStore() *TermStore {
	ts := &TermStore{tab: make(map[termKey]*Term, 1024), subst: map[*Term]*Term{}}
	ts.tt = ts.mk(OpConst, 0, nil, nil, nil, 1, "")
	ts.ff = ts.mk(OpConst, 0, nil, nil, nil, 0, "")
	return ts
}

func mix(h, v uint64) uint64 {
	h ^= v + 0x9e3779b97f4a7c15 + (h << 6) + (h >> 2)
	h *= 0xff51afd7ed558ccd
	h ^= h >> 33
	return h
}

func tid(t *Term) int {
	if t == nil {
		return -1
	}
	return t.id
}

func (ts *TermStore) mk(op Op, w uint8, a, b, c *Term, k uint64, name string) *Term {
	key := termKey{op, w, tid(a), tid(b), tid(c), k, name}
	if t, ok := ts.tab[key]; ok {
		return t
	}
	t := &Term{op: op, w: w, a: a, b: b, c: c, k: k, name: name, id: ts.next}
	ts.next++
	h1 := mix(uint64(op)<<8|uint64(w), k)
	h2 := mix(k^0x1234567, uint64(op)*31+uint64(w))
	for i := 0; i < len(name); i++ {
		h1 = mix(h1, uint64(name[i]))
		h2 = mix(h2, uint64(name[i])+77)
	}
	for _, x := range []*Term{a, b, c} {
		if x != nil {
			h1 = mix(h1, x.h1)
			h2 = mix(h2, x.h2^h1)
		} else {
			h1 = mix(h1, 1)
		}
	}
	t.h1, t.h2 = h1, h2
	if op == OpSym {
		if w == 8 {
			t.single = t
		} else {
			t.multi = true
		}
	} else {
		for _, x := range []*Term{a, b, c} {
			if x == nil {
				continue
			}
			if x.multi {
				t.multi = true
			} else if x.single != nil {
				if t.single == nil {
					t.single = x.single
				} else if t.single != x.single {
					t.multi = true
				}
			}
		}
		if t.multi {
			t.single = nil
		}
	}
	ts.tab[key] = t
	return t
}

func mask(w uint8) uint64 {
	if w >= 64 {
		return ^uint64(0)
	}
	return (uint64(1) << w) - 1
}

func (t *Term) IsConst() bool { return t.op == OpConst }
func (t *Term) IsBool() bool  { return t.w == 0 }
func (t *Term) Const() uint64 { return t.k }
func (t *Term) IsTrue() bool  { return t.op == OpConst && t.w == 0 && t.k == 1 }
func (t *Term) IsFalse() bool { return t.op == OpConst && t.w == 0 && t.k == 0 }

// SignedConst returns the constant interpreted as a signed value of its width.
func (t *Term) SignedConst() int64 {
	return signExtend(t.k, t.w)
}

func signExtend(v uint64, w uint8) int64 {
	if w >= 64 || w == 0 {
		return int64(v)
	}
	if v&(1<<(w-1)) != 0 {
		return int64(v | ^mask(w))
	}
	return int64(v)
}

func (ts *TermStore) Const(w uint8, v uint64) *Term {
	if w == 0 {
		if v != 0 {
			return ts.tt
		}
		return ts.ff
	}
	return ts.mk(OpConst, w, nil, nil, nil, v&mask(w), "")
}
func (ts *TermStore) Bool(b bool) *Term {
	if b {
		return ts.tt
	}
	return ts.ff
}
func (ts *TermStore) Sym(w uint8, name string) *Term {
	return ts.mk(OpSym, w, nil, nil, nil, 0, name)
}

func evalBin(op Op, w uint8, x, y uint64) uint64 {
	m := mask(w)
	switch op {
	case OpAdd:
		return (x + y) & m
	case OpSub:
		return (x - y) & m
	case OpMul:
		return (x * y) & m
	case OpUDiv:
		if y == 0 {
			return m
		}
		return x / y
	case OpURem:
		if y == 0 {
			return x
		}
		return x % y
	case OpSDiv:
		sx, sy := signExtend(x, w), signExtend(y, w)
		if sy == 0 {
			if sx < 0 {
				return 1
			}
			return m
		}
		if sy == -1 {
			return uint64(-sx) & m
		}
		return uint64(sx/sy) & m
	case OpSRem:
		sx, sy := signExtend(x, w), signExtend(y, w)
		if sy == 0 {
			return x
		}
		if sy == -1 {
			return 0
		}
		return uint64(sx%sy) & m
	case OpAnd:
		return x & y
	case OpOr:
		return x | y
	case OpXor:
		return x ^ y
	case OpShl:
		if y >= uint64(w) {
			return 0
		}
		return (x << y) & m
	case OpLShr:
		if y >= uint64(w) {
			return 0
		}
		return x >> y
	case OpAShr:
		sx := signExtend(x, w)
		if y >= uint64(w) {
			if sx < 0 {
				return m
			}
			return 0
		}
		return uint64(sx>>y) & m
	}
	panic("evalBin")
}

func (ts *TermStore) Bin(op Op, a, b *Term) *Term {
	if a.w != b.w {
		panic(fmt.Sprintf("width mismatch %s: %d vs %d", opNames[op], a.w, b.w))
	}
	w := a.w
	if a.IsConst() && b.IsConst() {
		return ts.Const(w, evalBin(op, w, a.k, b.k))
	}
	// canonical: constants to the right for commutative ops
	switch op {
	case OpAdd, OpMul, OpAnd, OpOr, OpXor:
		if a.IsConst() {
			a, b = b, a
		}
	}
	switch op {
	case OpAdd:
		if b.IsConst() && b.k == 0 {
			return a
		}
		// (x + c1) + c2
		if b.IsConst() && a.op == OpAdd && a.b.IsConst() {
			return ts.Bin(OpAdd, a.a, ts.Const(w, a.b.k+b.k))
		}
	case OpSub:
		if b.IsConst() && b.k == 0 {
			return a
		}
		if a == b {
			return ts.Const(w, 0)
		}
		if b.IsConst() {
			return ts.Bin(OpAdd, a, ts.Const(w, -b.k))
		}
	case OpMul:
		if b.IsConst() && b.k == 0 {
			return b
		}
		if b.IsConst() && b.k == 1 {
			return a
		}
	case OpAnd:
		if b.IsConst() && b.k == 0 {
			return b
		}
		if b.IsConst() && b.k == mask(w) {
			return a
		}
		if a == b {
			return a
		}
		// and with low mask = zext(extract)
		if b.IsConst() && b.k != 0 && (b.k&(b.k+1)) == 0 {
			n := uint8(bits.Len64(b.k))
			if n < w {
				return ts.ZExt(ts.Extract(a, n-1, 0), w)
			}
		}
	case OpOr:
		if b.IsConst() && b.k == 0 {
			return a
		}
		if b.IsConst() && b.k == mask(w) {
			return b
		}
		if a == b {
			return a
		}
		// concat(x, 0) | zext(y) = concat(x, zext(y)) when y fits in the zero part
		for k := 0; k < 2; k++ {
			x, y := a, b
			if k == 1 {
				x, y = b, a
			}
			if x.op == OpConcat && x.b.IsConst() && x.b.k == 0 && y.op == OpZExt && y.a.w <= x.b.w {
				return ts.Concat(x.a, ts.ZExt(y.a, x.b.w))
			}
			if x.op == OpConcat && x.b.IsConst() && x.b.k == 0 && y.op == OpConcat && y.a.IsConst() && y.a.k == 0 && y.b.w <= x.b.w {
				return ts.Concat(x.a, ts.ZExt(y.b, x.b.w))
			}
		}
	case OpXor:
		if b.IsConst() && b.k == 0 {
			return a
		}
		if a == b {
			return ts.Const(w, 0)
		}
	case OpShl, OpLShr, OpAShr:
		if b.IsConst() && b.k == 0 {
			return a
		}
		if b.IsConst() && b.k >= uint64(w) && op != OpAShr {
			return ts.Const(w, 0)
		}
		if b.IsConst() && op == OpLShr {
			// lshr by constant = zext(extract)
			return ts.ZExt(ts.Extract(a, w-1, uint8(b.k)), w)
		}
		if b.IsConst() && op == OpShl {
			s := uint8(b.k)
			return ts.Concat(ts.Extract(a, w-1-s, 0), ts.Const(s, 0))
		}
	case OpUDiv, OpURem:
		if b.IsConst() && b.k != 0 && (b.k&(b.k-1)) == 0 {
			s := uint8(bits.TrailingZeros64(b.k))
			if op == OpUDiv {
				return ts.Bin(OpLShr, a, ts.Const(w, uint64(s)))
			}
			if s == 0 {
				return ts.Const(w, 0)
			}
			return ts.ZExt(ts.Extract(a, s-1, 0), w)
		}
	}
	return ts.mk(op, w, a, b, nil, 0, "")
}

func (ts *TermStore) Not(a *Term) *Term {
	if a.IsConst() {
		return ts.Const(a.w, ^a.k)
	}
	if a.op == OpNot {
		return a.a
	}
	return ts.mk(OpNot, a.w, a, nil, nil, 0, "")
}
func (ts *TermStore) Neg(a *Term) *Term {
	if a.IsConst() {
		return ts.Const(a.w, -a.k)
	}
	return ts.mk(OpNeg, a.w, a, nil, nil, 0, "")
}

func (ts *TermStore) Concat(hi, lo *Term) *Term {
	w := hi.w + lo.w
	if w > 64 {
		panic("concat too wide")
	}
	if hi.IsConst() && lo.IsConst() {
		return ts.Const(w, hi.k<<lo.w|lo.k)
	}
	// concat(0, x) = zext
	if hi.IsConst() && hi.k == 0 {
		return ts.ZExt(lo, w)
	}
	// concat(extract(x,h,m+1), extract(x,m,l)) = extract(x,h,l)
	if hi.op == OpExtract && lo.op == OpExtract && hi.a == lo.a {
		hl := uint8(hi.k & 0xff)
		lh := uint8(lo.k >> 8)
		if hl == lh+1 {
			return ts.Extract(hi.a, uint8(hi.k>>8), uint8(lo.k&0xff))
		}
	}
	return ts.mk(OpConcat, w, hi, lo, nil, 0, "")
}

func (ts *TermStore) Extract(a *Term, hi, lo uint8) *Term {
	if lo == 0 && hi == a.w-1 {
		return a
	}
	if hi < lo || hi >= a.w {
		panic(fmt.Sprintf("bad extract %d:%d of width %d", hi, lo, a.w))
	}
	w := hi - lo + 1
	switch a.op {
	case OpConst:
		return ts.Const(w, a.k>>lo)
	case OpExtract:
		l0 := uint8(a.k & 0xff)
		return ts.Extract(a.a, hi+l0, lo+l0)
	case OpConcat:
		lw := a.b.w
		if hi < lw {
			return ts.Extract(a.b, hi, lo)
		}
		if lo >= lw {
			return ts.Extract(a.a, hi-lw, lo-lw)
		}
		return ts.Concat(ts.Extract(a.a, hi-lw, 0), ts.Extract(a.b, lw-1, lo))
	case OpZExt:
		iw := a.a.w
		if hi < iw {
			return ts.Extract(a.a, hi, lo)
		}
		if lo >= iw {
			return ts.Const(w, 0)
		}
		return ts.ZExt(ts.Extract(a.a, iw-1, lo), w)
	case OpSExt:
		iw := a.a.w
		if hi < iw {
			return ts.Extract(a.a, hi, lo)
		}
	case OpAnd, OpOr, OpXor:
		// extract commutes with bitwise ops
		return ts.Bin(a.op, ts.Extract(a.a, hi, lo), ts.Extract(a.b, hi, lo))
	case OpNot:
		return ts.Not(ts.Extract(a.a, hi, lo))
	case OpIte:
		if a.b.IsConst() && a.c.IsConst() {
			return ts.Ite(a.a, ts.Extract(a.b, hi, lo), ts.Extract(a.c, hi, lo))
		}
	case OpAdd, OpSub, OpMul:
		if lo == 0 {
			// low bits of add/sub/mul depend only on low bits
			return ts.Bin(a.op, ts.Extract(a.a, hi, 0), ts.Extract(a.b, hi, 0))
		}
	}
	return ts.mk(OpExtract, w, a, nil, nil, uint64(hi)<<8|uint64(lo), "")
}

func (ts *TermStore) ZExt(a *Term, w uint8) *Term {
	if a.w == w {
		return a
	}
	if a.w > w {
		return ts.Extract(a, w-1, 0)
	}
	if a.IsConst() {
		return ts.Const(w, a.k)
	}
	if a.op == OpZExt {
		return ts.ZExt(a.a, w)
	}
	if a.op == OpIte && a.b.IsConst() && a.c.IsConst() {
		return ts.Ite(a.a, ts.Const(w, a.b.k), ts.Const(w, a.c.k))
	}
	return ts.mk(OpZExt, w, a, nil, nil, 0, "")
}

func (ts *TermStore) SExt(a *Term, w uint8) *Term {
	if a.w == w {
		return a
	}
	if a.w > w {
		return ts.Extract(a, w-1, 0)
	}
	if a.IsConst() {
		return ts.Const(w, uint64(signExtend(a.k, a.w)))
	}
	if a.op == OpZExt {
		return ts.ZExt(a.a, w)
	}
	return ts.mk(OpSExt, w, a, nil, nil, 0, "")
}

func (ts *TermStore) Ite(c, a, b *Term) *Term {
	if c.IsTrue() {
		return a
	}
	if c.IsFalse() {
		return b
	}
	if a == b {
		return a
	}
	if a.w != b.w {
		panic("ite width mismatch")
	}
	if a.w == 0 {
		if a.IsTrue() && b.IsFalse() {
			return c
		}
		if a.IsFalse() && b.IsTrue() {
			return ts.BNot(c)
		}
		if a.IsTrue() {
			return ts.BOr(c, b)
		}
		if a.IsFalse() {
			return ts.BAnd(ts.BNot(c), b)
		}
		if b.IsTrue() {
			return ts.BOr(ts.BNot(c), a)
		}
		if b.IsFalse() {
			return ts.BAnd(c, a)
		}
	}
	if c.op == OpBNot {
		return ts.Ite(c.a, b, a)
	}
	// ite(c, x, ite(c, y, z)) = ite(c, x, z)
	if b.op == OpIte && b.a == c {
		return ts.Ite(c, a, b.c)
	}
	if a.op == OpIte && a.a == c {
		return ts.Ite(c, a.b, b)
	}
	return ts.mk(OpIte, a.w, c, a, b, 0, "")
}

func (ts *TermStore) BNot(a *Term) *Term {
	if a.IsConst() {
		return ts.Bool(a.k == 0)
	}
	switch a.op {
	case OpBNot:
		return a.a
	}
	return ts.mk(OpBNot, 0, a, nil, nil, 0, "")
}

func (ts *TermStore) BAnd(a, b *Term) *Term {
	if a.IsFalse() || b.IsFalse() {
		return ts.ff
	}
	if a.IsTrue() {
		return b
	}
	if b.IsTrue() {
		return a
	}
	if a == b {
		return a
	}
	if (a.op == OpBNot && a.a == b) || (b.op == OpBNot && b.a == a) {
		return ts.ff
	}
	if a.id > b.id {
		a, b = b, a
	}
	return ts.mk(OpBAnd, 0, a, b, nil, 0, "")
}

func (ts *TermStore) BOr(a, b *Term) *Term {
	if a.IsTrue() || b.IsTrue() {
		return ts.tt
	}
	if a.IsFalse() {
		return b
	}
	if b.IsFalse() {
		return a
	}
	if a == b {
		return a
	}
	if (a.op == OpBNot && a.a == b) || (b.op == OpBNot && b.a == a) {
		return ts.tt
	}
	if a.id > b.id {
		a, b = b, a
	}
	return ts.mk(OpBOr, 0, a, b, nil, 0, "")
}

func (ts *TermStore) Implies(a, b *Term) *Term { return ts.BOr(ts.BNot(a), b) }

func (ts *TermStore) Eq(a, b *Term) *Term {
	if a == b {
		return ts.tt
	}
	if a.w != b.w {
		panic(fmt.Sprintf("eq width mismatch %d vs %d", a.w, b.w))
	}
	if a.IsConst() && b.IsConst() {
		return ts.Bool(a.k == b.k)
	}
	if a.IsConst() {
		a, b = b, a
	}
	if a.w > 0 && (a.op == OpXor || b.op == OpXor) {
		return ts.eqXor(a, b)
	}
	if a.w == 0 {
		if b.IsTrue() {
			return a
		}
		if b.IsFalse() {
			return ts.BNot(a)
		}
	}
	if b.IsConst() {
		switch a.op {
		case OpIte:
			// eq(ite(c,x,y),k) with constant arms
			if a.b.IsConst() || a.c.IsConst() {
				return ts.Ite(a.a, ts.Eq(a.b, b), ts.Eq(a.c, b))
			}
		case OpZExt:
			if b.k > mask(a.a.w) {
				return ts.ff
			}
			return ts.Eq(a.a, ts.Const(a.a.w, b.k))
		case OpAdd:
			if a.b.IsConst() {
				return ts.Eq(a.a, ts.Const(a.w, b.k-a.b.k))
			}
		case OpXor:
			if a.b.IsConst() {
				return ts.Eq(a.a, ts.Const(a.w, b.k^a.b.k))
			}
		case OpConcat:
			return ts.BAnd(ts.Eq(a.a, ts.Const(a.a.w, b.k>>a.b.w)), ts.Eq(a.b, ts.Const(a.b.w, b.k)))
		}
	}
	if a.id > b.id {
		a, b = b, a
	}
	return ts.mk(OpEq, 0, a, b, nil, 0, "")
}

func (ts *TermStore) Cmp(op Op, a, b *Term) *Term {
	if a.w != b.w {
		panic("cmp width mismatch")
	}
	if a.IsConst() && b.IsConst() {
		var r bool
		switch op {
		case OpUlt:
			r = a.k < b.k
		case OpUle:
			r = a.k <= b.k
		case OpSlt:
			r = a.SignedConst() < b.SignedConst()
		case OpSle:
			r = a.SignedConst() <= b.SignedConst()
		}
		return ts.Bool(r)
	}
	if a == b {
		return ts.Bool(op == OpUle || op == OpSle)
	}
	// push comparisons with a constant into ite terms with a constant arm
	if a.op == OpIte && b.IsConst() && (a.b.IsConst() || a.c.IsConst()) {
		return ts.Ite(a.a, ts.Cmp(op, a.b, b), ts.Cmp(op, a.c, b))
	}
	if b.op == OpIte && a.IsConst() && (b.b.IsConst() || b.c.IsConst()) {
		return ts.Ite(b.a, ts.Cmp(op, a, b.b), ts.Cmp(op, a, b.c))
	}
	switch op {
	case OpUlt:
		if b.IsConst() && b.k == 0 {
			return ts.ff
		}
		if a.IsConst() && a.k == mask(a.w) {
			return ts.ff
		}
		if b.IsConst() && a.op == OpZExt && b.k > mask(a.a.w) {
			return ts.tt
		}
		if b.IsConst() && a.op == OpZExt {
			return ts.Cmp(op, a.a, ts.Const(a.a.w, b.k))
		}
		if a.IsConst() && b.op == OpZExt {
			if a.k >= mask(b.a.w) {
				return ts.ff
			}
			return ts.Cmp(op, ts.Const(b.a.w, a.k), b.a)
		}
	case OpUle:
		if a.IsConst() && a.k == 0 {
			return ts.tt
		}
		if b.IsConst() && b.k == mask(b.w) {
			return ts.tt
		}
		if b.IsConst() && a.op == OpZExt && b.k >= mask(a.a.w) {
			return ts.tt
		}
		if b.IsConst() && a.op == OpZExt {
			return ts.Cmp(op, a.a, ts.Const(a.a.w, b.k))
		}
		if a.IsConst() && b.op == OpZExt {
			if a.k > mask(b.a.w) {
				return ts.ff
			}
			return ts.Cmp(op, ts.Const(b.a.w, a.k), b.a)
		}
	case OpSlt, OpSle:
		// signed compare of zero-extended values against non-negative constants = unsigned compare
		if a.op == OpZExt && b.IsConst() && b.SignedConst() >= 0 {
			if op == OpSlt {
				return ts.Cmp(OpUlt, a, b)
			}
			return ts.Cmp(OpUle, a, b)
		}
		if b.op == OpZExt && a.IsConst() && a.SignedConst() >= 0 {
			if op == OpSlt {
				return ts.Cmp(OpUlt, a, b)
			}
			return ts.Cmp(OpUle, a, b)
		}
		if a.op == OpZExt && b.op == OpZExt {
			if op == OpSlt {
				return ts.Cmp(OpUlt, a, b)
			}
			return ts.Cmp(OpUle, a, b)
		}
		if a.op == OpZExt && b.IsConst() && b.SignedConst() < 0 {
			return ts.ff
		}
		if b.op == OpZExt && a.IsConst() && a.SignedConst() < 0 {
			return ts.tt
		}
	}
	return ts.mk(op, 0, a, b, nil, 0, "")
}

// Eval evaluates a term under a model (symbol name -> value). Missing symbols are 0.
func Eval(t *Term, model map[string]uint64, memo map[*Term]uint64) uint64 {
	if t.op == OpConst {
		return t.k
	}
	if v, ok := memo[t]; ok {
		return v
	}
	var r uint64
	switch t.op {
	case OpSym:
		r = model[t.name] & maskB(t.w)
	case OpNot:
		r = ^Eval(t.a, model, memo) & mask(t.w)
	case OpNeg:
		r = -Eval(t.a, model, memo) & mask(t.w)
	case OpConcat:
		r = Eval(t.a, model, memo)<<t.b.w | Eval(t.b, model, memo)
	case OpExtract:
		hi, lo := uint8(t.k>>8), uint8(t.k&0xff)
		r = (Eval(t.a, model, memo) >> lo) & mask(hi-lo+1)
	case OpZExt:
		r = Eval(t.a, model, memo)
	case OpSExt:
		r = uint64(signExtend(Eval(t.a, model, memo), t.a.w)) & mask(t.w)
	case OpIte:
		if Eval(t.a, model, memo) != 0 {
			r = Eval(t.b, model, memo)
		} else {
			r = Eval(t.c, model, memo)
		}
	case OpEq:
		r = b2u(Eval(t.a, model, memo) == Eval(t.b, model, memo))
	case OpUlt:
		r = b2u(Eval(t.a, model, memo) < Eval(t.b, model, memo))
	case OpUle:
		r = b2u(Eval(t.a, model, memo) <= Eval(t.b, model, memo))
	case OpSlt:
		r = b2u(signExtend(Eval(t.a, model, memo), t.a.w) < signExtend(Eval(t.b, model, memo), t.b.w))
	case OpSle:
		r = b2u(signExtend(Eval(t.a, model, memo), t.a.w) <= signExtend(Eval(t.b, model, memo), t.b.w))
	case OpBAnd:
		r = b2u(Eval(t.a, model, memo) != 0 && Eval(t.b, model, memo) != 0)
	case OpBOr:
		r = b2u(Eval(t.a, model, memo) != 0 || Eval(t.b, model, memo) != 0)
	case OpBNot:
		r = b2u(Eval(t.a, model, memo) == 0)
	default:
		r = evalBin(t.op, t.w, Eval(t.a, model, memo), Eval(t.b, model, memo))
	}
	memo[t] = r
	return r
}

func maskB(w uint8) uint64 {
	if w == 0 {
		return 1
	}
	return mask(w)
}

func b2u(b bool) uint64 {
	if b {
		return 1
	}
	return 0
}

// Syms collects the symbols a term depends on.
func Syms(t *Term, seen map[*Term]bool, out map[string]uint8) {
	if t == nil || seen[t] {
		return
	}
	seen[t] = true
	if t.op == OpSym {
		out[t.name] = t.w
		return
	}
	Syms(t.a, seen, out)
	Syms(t.b, seen, out)
	Syms(t.c, seen, out)
}

func (t *Term) hname() string { return fmt.Sprintf("t%016x%016x", t.h1, t.h2) }

func symSMTName(n string) string { return "|" + n + "|" }

func sortOf(w uint8) string {
	if w == 0 {
		return "Bool"
	}
	return fmt.Sprintf("(_ BitVec %d)", w)
}

func constSMT(t *Term) string {
	if t.w == 0 {
		if t.k != 0 {
			return "true"
		}
		return "false"
	}
	if t.w%4 == 0 {
		return fmt.Sprintf("#x%0*x", int(t.w/4), t.k)
	}
	return fmt.Sprintf("#b%0*b", int(t.w), t.k)
}

// ref is how a term is referred to inside another SMT expression.
func (t *Term) ref() string {
	switch t.op {
	case OpConst:
		return constSMT(t)
	case OpSym:
		return symSMTName(t.name)
	}
	return t.hname()
}

// body is the SMT-LIB expression of a non-leaf term in terms of refs of its children.
func (t *Term) body() string {
	switch t.op {
	case OpExtract:
		return fmt.Sprintf("((_ extract %d %d) %s)", t.k>>8, t.k&0xff, t.a.ref())
	case OpZExt:
		return fmt.Sprintf("((_ zero_extend %d) %s)", t.w-t.a.w, t.a.ref())
	case OpSExt:
		return fmt.Sprintf("((_ sign_extend %d) %s)", t.w-t.a.w, t.a.ref())
	case OpNot, OpNeg, OpBNot:
		return fmt.Sprintf("(%s %s)", opNames[t.op], t.a.ref())
	case OpIte:
		return fmt.Sprintf("(ite %s %s %s)", t.a.ref(), t.b.ref(), t.c.ref())
	}
	return fmt.Sprintf("(%s %s %s)", opNames[t.op], t.a.ref(), t.b.ref())
}

// String renders a term as a (possibly large) plain s-expression, for diagnostics only.
func (t *Term) String() string {
	var sb strings.Builder
	var rec func(t *Term, d int)
	rec = func(t *Term, d int) {
		if d > 6 {
			sb.WriteString("…")
			return
		}
		switch t.op {
		case OpConst:
			if t.w == 0 {
				sb.WriteString(constSMT(t))
			} else {
				fmt.Fprintf(&sb, "%d", t.k)
			}
		case OpSym:
			sb.WriteString(t.name)
		case OpExtract:
			fmt.Fprintf(&sb, "(ex %d %d ", t.k>>8, t.k&0xff)
			rec(t.a, d+1)
			sb.WriteString(")")
		default:
			sb.WriteString("(" + opNames[t.op])
			if t.op == OpZExt {
				sb.WriteString("zx")
			}
			if t.op == OpSExt {
				sb.WriteString("sx")
			}
			for _, x := range []*Term{t.a, t.b, t.c} {
				if x != nil {
					sb.WriteString(" ")
					rec(x, d+1)
				}
			}
			sb.WriteString(")")
		}
	}
	rec(t, 0)
	return sb.String()
}

// evalByte evaluates a term that depends on one 8-bit symbol only, for that symbol = v.
func evalByte(t *Term, v uint64, memo map[*Term]uint64) uint64 {
	if t.op == OpConst {
		return t.k
	}
	if t.op == OpSym {
		return v
	}
	if r, ok := memo[t]; ok {
		return r
	}
	var r uint64
	switch t.op {
	case OpNot:
		r = ^evalByte(t.a, v, memo) & mask(t.w)
	case OpNeg:
		r = -evalByte(t.a, v, memo) & mask(t.w)
	case OpConcat:
		r = evalByte(t.a, v, memo)<<t.b.w | evalByte(t.b, v, memo)
	case OpExtract:
		hi, lo := uint8(t.k>>8), uint8(t.k&0xff)
		r = (evalByte(t.a, v, memo) >> lo) & mask(hi-lo+1)
	case OpZExt:
		r = evalByte(t.a, v, memo)
	case OpSExt:
		r = uint64(signExtend(evalByte(t.a, v, memo), t.a.w)) & mask(t.w)
	case OpIte:
		if evalByte(t.a, v, memo) != 0 {
			r = evalByte(t.b, v, memo)
		} else {
			r = evalByte(t.c, v, memo)
		}
	case OpEq:
		r = b2u(evalByte(t.a, v, memo) == evalByte(t.b, v, memo))
	case OpUlt:
		r = b2u(evalByte(t.a, v, memo) < evalByte(t.b, v, memo))
	case OpUle:
		r = b2u(evalByte(t.a, v, memo) <= evalByte(t.b, v, memo))
	case OpSlt:
		r = b2u(signExtend(evalByte(t.a, v, memo), t.a.w) < signExtend(evalByte(t.b, v, memo), t.b.w))
	case OpSle:
		r = b2u(signExtend(evalByte(t.a, v, memo), t.a.w) <= signExtend(evalByte(t.b, v, memo), t.b.w))
	case OpBAnd:
		r = b2u(evalByte(t.a, v, memo) != 0 && evalByte(t.b, v, memo) != 0)
	case OpBOr:
		r = b2u(evalByte(t.a, v, memo) != 0 || evalByte(t.b, v, memo) != 0)
	case OpBNot:
		r = b2u(evalByte(t.a, v, memo) == 0)
	default:
		r = evalBin(t.op, t.w, evalByte(t.a, v, memo), evalByte(t.b, v, memo))
	}
	memo[t] = r
	return r
}

// eqXor normalises a == b when xor chains are involved: both sides are flattened, symbols fixed by
// the path condition are replaced by their constants, equal leaves cancel, constants fold, and the
// remaining leaves are rebuilt as a canonical left-deep chain compared with one constant.
func (ts *TermStore) eqXor(a, b *Term) *Term {
	w := a.w
	var k uint64
	count := map[*Term]int{}
	var order []*Term
	var stack []*Term
	stack = append(stack, a, b)
	for len(stack) > 0 {
		x := stack[len(stack)-1]
		stack = stack[:len(stack)-1]
		if x.op == OpXor {
			stack = append(stack, x.a, x.b)
			continue
		}
		if s, ok := ts.subst[x]; ok {
			x = s
		}
		if x.IsConst() {
			k ^= x.k
			continue
		}
		if count[x] == 0 {
			order = append(order, x)
		}
		count[x]++
	}
	var leaves []*Term
	for _, x := range order {
		if count[x]%2 == 1 {
			leaves = append(leaves, x)
		}
	}
	if len(leaves) == 0 {
		return ts.Bool(k == 0)
	}
	sortTermsByID(leaves)
	chain := leaves[0]
	for _, x := range leaves[1:] {
		chain = ts.mk(OpXor, w, chain, x, nil, 0, "")
	}
	kc := ts.Const(w, k)
	if chain.op != OpXor {
		return ts.Eq(chain, kc)
	}
	return ts.mk(OpEq, 0, chain, kc, nil, 0, "")
}

func sortTermsByID(ts []*Term) {
	// insertion sort for short lists, otherwise a simple merge sort (stable, no reflection)
	if len(ts) < 24 {
		for i := 1; i < len(ts); i++ {
			for j := i; j > 0 && ts[j].id < ts[j-1].id; j-- {
				ts[j], ts[j-1] = ts[j-1], ts[j]
			}
		}
		return
	}
	mid := len(ts) / 2
	l := append([]*Term{}, ts[:mid]...)
	r := append([]*Term{}, ts[mid:]...)
	sortTermsByID(l)
	sortTermsByID(r)
	i, j, k := 0, 0, 0
	for i < len(l) && j < len(r) {
		if l[i].id <= r[j].id {
			ts[k] = l[i]
			i++
		} else {
			ts[k] = r[j]
			j++
		}
		k++
	}
	for ; i < len(l); i++ {
		ts[k] = l[i]
		k++
	}
	for ; j < len(r); j++ {
		ts[k] = r[j]
		k++
	}
}

// table returns the values of a single-symbol term for every value 0..255 of its symbol.
func (t *Term) table() []uint64 {
	if t.tab != nil {
		return t.tab
	}
	tab := make([]uint64, 256)
	switch t.op {
	case OpConst:
		for v := range tab {
			tab[v] = t.k
		}
	case OpSym:
		for v := range tab {
			tab[v] = uint64(v)
		}
	default:
		var ta, tb, tc []uint64
		if t.a != nil {
			ta = t.a.table()
		}
		if t.b != nil {
			tb = t.b.table()
		}
		if t.c != nil {
			tc = t.c.table()
		}
		for v := 0; v < 256; v++ {
			var r uint64
			switch t.op {
			case OpNot:
				r = ^ta[v] & mask(t.w)
			case OpNeg:
				r = -ta[v] & mask(t.w)
			case OpConcat:
				r = ta[v]<<t.b.w | tb[v]
			case OpExtract:
				hi, lo := uint8(t.k>>8), uint8(t.k&0xff)
				r = (ta[v] >> lo) & mask(hi-lo+1)
			case OpZExt:
				r = ta[v]
			case OpSExt:
				r = uint64(signExtend(ta[v], t.a.w)) & mask(t.w)
			case OpIte:
				if ta[v] != 0 {
					r = tb[v]
				} else {
					r = tc[v]
				}
			case OpEq:
				r = b2u(ta[v] == tb[v])
			case OpUlt:
				r = b2u(ta[v] < tb[v])
			case OpUle:
				r = b2u(ta[v] <= tb[v])
			case OpSlt:
				r = b2u(signExtend(ta[v], t.a.w) < signExtend(tb[v], t.b.w))
			case OpSle:
				r = b2u(signExtend(ta[v], t.a.w) <= signExtend(tb[v], t.b.w))
			case OpBAnd:
				r = b2u(ta[v] != 0 && tb[v] != 0)
			case OpBOr:
				r = b2u(ta[v] != 0 || tb[v] != 0)
			case OpBNot:
				r = b2u(ta[v] == 0)
			default:
				r = evalBin(t.op, t.w, ta[v], tb[v])
			}
			tab[v] = r
		}
	}
	t.tab = tab
	return tab
}
