package main

import (
	"os"
	"fmt"
	"go/constant"
	"go/token"
	"go/types"
	"math"
	"sort"
	"strings"

	"golang.org/x/tools/go/ssa"
)

// ---- control-flow signals (Go panics used as non-local exits) ----

type goPanic struct {
	val  Value // the interface value passed to panic(), or nil for runtime errors
	kind string
	site string
	msg  string
}

type pathEnd struct {
	outcome string // "done", "assumed", "violation", "unsupported", "unwind", "internal", "deadlock"
	detail  string
}

type killed struct{}

type deferred struct {
	fn   Value
	args []Value
	call *ssa.CallCommon
}

type Frame struct {
	fn       *ssa.Function
	info     *fnInfo
	env      []Value
	defers   []deferred
	results  []Value
	catch    bool
	panicked *goPanic
	loops    map[*ssa.BasicBlock]int
	skipPhis bool
	prevOverride *ssa.BasicBlock
}

type fnInfo struct {
	idx map[ssa.Value]int
	n   int
}

type G struct {
	id       int
	resume   chan bool
	waitFn   func() bool // non-nil: blocked until it returns true
	sleeping bool
	yielding bool
	quiescing bool // vrt_Quiesce: runs only when nothing else can run, never a deviation target
	lastEv   int  // index of this goroutine's latest event in the schedule trace
	done     bool
	depth    int
	crash    *goPanic
	selDone  map[*ssa.Select]map[int]bool
}

type inputRec struct {
	Label string
	Kind  string
	Terms []*Term
	Conc  int64 // for choose
}

type violation struct {
	Kind    string // "assert", "panic", "deadlock"
	Site    string
	Msg     string
	PC      []*Term
	Inputs  []inputRec
	Classes map[string]*Term
	Choices []int64
	Sched   []schedEv
}

type Exec struct {
	w  *Worker
	ts *TermStore
	pc []*Term

	prefix    []int64
	decisions []int64
	newAlts   [][]int64

	objSeq    int
	slotCache map[types.Type]int
	globals   map[*ssa.Global]*Obj
	sentinels map[string]IfaceV

	gs      []*G
	cur     *G
	main    *G
	dead    bool
	steps   int
	maxStep int

	inputs  []inputRec
	covers  map[string]bool
	classes map[string]*Term
	observe []obsRec
	lastNow [2]*Term
	nowSeq  int
	symSeq  map[string]int
	fsLog   []fsRec

	viol     *violation
	inconcl  string
	merges   int
	branches int
	splits   int
	funcs    map[string]bool
	noMergeAt map[int]bool

	pendingEnd    *pathEnd
	crash         *goPanic
	curDeferFrame []*Frame
	asserts       int
	lastPanic     *goPanic
	callStack     []string
	panicStack    []string
	inMerge       bool
	pendingPhi    []phiVal
	pcSet         map[*Term]bool
	clockFrozen   bool
	spc           []*Term
	unaryBy       map[string][]*Term
	vsets         map[string]*byteSet
	entangled     map[string]bool

	pools map[poolKey][]Value // sync.Pool model

	// schedule mode (vrt_Sched): deviation-bounded exploration of goroutine schedules
	schedOn     bool
	schedBudget int
	schedDev    int
	schedMax    int
	schedTrace  []schedEv
}

type obsRec struct {
	Label string
	Terms []*Term
}

type fsRec struct {
	Op   string
	Path StrV
}

func (ex *Exec) frontier() bool { return len(ex.decisions) >= len(ex.prefix) }

func (ex *Exec) end(outcome, detail string) {
	if outcome == "internal" || outcome == "unsupported" {
		n := len(ex.callStack)
		if n > 4 {
			n = 4
		}
		detail += " @ " + strings.Join(ex.callStack[len(ex.callStack)-n:], " < ")
	}
	panic(pathEnd{outcome, detail})
}

func (ex *Exec) unsupported(format string, args ...interface{}) {
	ex.end("unsupported", fmt.Sprintf(format, args...))
}

// ---- decisions ----

// decideVals: choose one of vals (first on the frontier, the others become pending prefixes).
func (ex *Exec) decideVals(vals []int64) int64 {
	if ex.inMerge {
		panic(mergeBail{"decision"})
	}
	if !ex.frontier() {
		v := ex.prefix[len(ex.decisions)]
		ex.decisions = append(ex.decisions, v)
		return v
	}
	for _, v := range vals[1:] {
		alt := make([]int64, len(ex.decisions)+1)
		copy(alt, ex.decisions)
		alt[len(ex.decisions)] = v
		ex.newAlts = append(ex.newAlts, alt)
	}
	ex.decisions = append(ex.decisions, vals[0])
	return vals[0]
}

// byteSet is the set of values a single 8-bit input symbol may still take under the unary
// constraints of the path condition.
type byteSet [4]uint64

func (ex *Exec) vsetOf(s *Term) *byteSet {
	if bs, ok := ex.vsets[s.name]; ok {
		return bs
	}
	bs := &byteSet{^uint64(0), ^uint64(0), ^uint64(0), ^uint64(0)}
	ex.vsets[s.name] = bs
	return bs
}

// unary evaluates a single-symbol condition over the symbol's value set.
func (ex *Exec) unary(c *Term) (anyTrue, anyFalse bool) {
	bs := ex.vsetOf(c.single)
	tab := c.table()
	for v := 0; v < 256; v++ {
		if bs[v/64]&(1<<uint(v%64)) == 0 {
			continue
		}
		if tab[v] != 0 {
			anyTrue = true
		} else {
			anyFalse = true
		}
		if anyTrue && anyFalse {
			return
		}
	}
	return
}

// The solver sees a sliced path condition (ex.spc): every multi-symbol conjunct, and the unary
// conjuncts of exactly those 8-bit symbols that occur in some multi-symbol conjunct (appended when
// the symbol first becomes entangled, so that ex.spc only ever grows along a path and the solver's
// assertion stack is reused). Unary constraints on symbols that nothing else mentions cannot
// influence an answer; when a query literal itself mentions such a symbol, its unary conjuncts are
// folded into the literal.
func (ex *Exec) sliced(pc []*Term, c *Term) ([]*Term, *Term) {
	if c != nil {
		seen := map[*Term]bool{}
		syms := map[string]uint8{}
		Syms(c, seen, syms)
		for n := range syms {
			if !ex.entangled[n] {
				for _, u := range ex.unaryBy[n] {
					c = ex.ts.BAnd(c, u)
				}
			}
		}
	}
	return ex.spc, c
}

func (ex *Exec) solve(c *Term) SatResult {
	pc, c2 := ex.sliced(ex.pc, c)
	return ex.w.solver.Check(pc, c2)
}

func (ex *Exec) noteConjunct(c *Term) {
	if c.single != nil {
		ex.unaryBy[c.single.name] = append(ex.unaryBy[c.single.name], c)
		if ex.entangled[c.single.name] {
			ex.spc = append(ex.spc, c)
		}
		bs := ex.vsetOf(c.single)
		tab := c.table()
		for v := 0; v < 256; v++ {
			if bs[v/64]&(1<<uint(v%64)) != 0 && tab[v] == 0 {
				bs[v/64] &^= 1 << uint(v%64)
			}
		}
		// a symbol pinned to one value is substituted in xor normal forms from now on
		n, last := 0, 0
		for v := 0; v < 256 && n < 2; v++ {
			if bs[v/64]&(1<<uint(v%64)) != 0 {
				n++
				last = v
			}
		}
		if n == 1 {
			ex.ts.subst[c.single] = ex.ts.Const(8, uint64(last))
		}
		return
	}
	// symbols occurring in multi-symbol conjuncts are no longer decided by their value set alone
	seen := map[*Term]bool{}
	out := map[string]uint8{}
	Syms(c, seen, out)
	names := make([]string, 0, len(out))
	for n := range out {
		names = append(names, n)
	}
	sort.Strings(names)
	for _, n := range names {
		if !ex.entangled[n] {
			ex.entangled[n] = true
			ex.spc = append(ex.spc, ex.unaryBy[n]...)
		}
	}
	ex.spc = append(ex.spc, c)
}

func (ex *Exec) addPC(c *Term) {
	if c.IsTrue() {
		return
	}
	// split conjunctions so that prefixes are shared with sibling paths
	if c.op == OpBAnd {
		ex.addPC(c.a)
		ex.addPC(c.b)
		return
	}
	ex.pc = append(ex.pc, c)
	ex.pcSet[c] = true
	ex.noteConjunct(c)
}

const (
	decTrue        = 1
	decFalse       = 0
	decForcedTrue  = 3
	decForcedFalse = 2
)

// quickDecide answers conditions that are constant or forced by the value set of their only
// symbol; it is a pure function of the path condition, so it needs no decision record.
func (ex *Exec) quickDecide(c *Term) (val, decided bool) {
	if c.IsConst() {
		return c.k != 0, true
	}
	if c.single != nil {
		at, af := ex.unary(c)
		if !at {
			return false, true
		}
		if !af {
			return true, true
		}
	}
	// literally asserted (or refuted) by a conjunct of the path condition
	if ex.pcSet[c] {
		return true, true
	}
	if ex.pcSet[ex.ts.BNot(c)] {
		return false, true
	}
	return false, false
}

// branch decides a symbolic condition, forking when both sides are feasible.
func (ex *Exec) branch(c *Term) bool {
	if v, decided := ex.quickDecide(c); decided {
		return v
	}
	if ex.inMerge {
		panic(mergeBail{"branch"})
	}
	ex.branches++
	if !ex.frontier() {
		d := ex.prefix[len(ex.decisions)]
		ex.decisions = append(ex.decisions, d)
		switch d {
		case decTrue:
			ex.addPC(c)
			return true
		case decFalse:
			ex.addPC(ex.ts.BNot(c))
			return false
		case decForcedTrue:
			return true
		case decForcedFalse:
			return false
		}
		ex.end("internal", fmt.Sprintf("bad branch decision %d", d))
	}
	if c.single != nil {
		// both values possible under the unary constraints; exact when the symbol is not entangled
		if !ex.entangled[c.single.name] {
			alt := make([]int64, len(ex.decisions)+1)
			copy(alt, ex.decisions)
			alt[len(ex.decisions)] = decFalse
			ex.newAlts = append(ex.newAlts, alt)
			ex.decisions = append(ex.decisions, decTrue)
			ex.addPC(c)
			return true
		}
	}
	nc := ex.ts.BNot(c)
	if qlog {
		str := c.String()
		if len(str) > 150 {
			str = str[:150]
		}
		fmt.Fprintf(os.Stderr, "Q %s single=%v | %s\n", tail(ex.callStack, 1), c.single != nil, str)
	}
	rt := ex.solve(c)
	if rt == Unknown {
		ex.w.noteUnknown("branch feasibility")
	}
	if rt == Unsat {
		ex.decisions = append(ex.decisions, decForcedFalse)
		return false
	}
	rf := ex.solve(nc)
	if rf == Unknown {
		ex.w.noteUnknown("branch feasibility")
	}
	if rf == Unsat {
		ex.decisions = append(ex.decisions, decForcedTrue)
		return true
	}
	alt := make([]int64, len(ex.decisions)+1)
	copy(alt, ex.decisions)
	alt[len(ex.decisions)] = decFalse
	ex.newAlts = append(ex.newAlts, alt)
	ex.decisions = append(ex.decisions, decTrue)
	ex.addPC(c)
	return true
}

func (ex *Exec) assume(c *Term) {
	if c.IsTrue() {
		return
	}
	if c.IsFalse() {
		ex.end("assumed", "")
	}
	if ex.inMerge {
		panic(mergeBail{"assume"})
	}
	if v, decided := ex.quickDecide(c); decided {
		if !v {
			ex.end("assumed", "")
		}
		return
	}
	if c.single != nil && !ex.entangled[c.single.name] {
		// some value of the symbol satisfies c and nothing else constrains the symbol
		ex.addPC(c)
		return
	}
	if ex.frontier() {
		r := ex.solve(c)
		if r == Unsat {
			ex.end("assumed", "")
		}
		if r == Unknown {
			ex.w.noteUnknown("assume feasibility")
		}
	}
	ex.addPC(c)
}

// concretize forks over the feasible values of t (at most max).
func (ex *Exec) concretize(t *Term, max int, what string) uint64 {
	if t.IsConst() {
		return t.k
	}
	if ex.inMerge {
		panic(mergeBail{"case split"})
	}
	ex.splits++
	if !ex.frontier() {
		v := ex.prefix[len(ex.decisions)]
		ex.decisions = append(ex.decisions, v)
		ex.addPC(ex.ts.Eq(t, ex.ts.Const(t.w, uint64(v))))
		return uint64(v)
	}
	var vals []int64
	var pc2 []*Term
	// read the value through a fresh constant: evaluating a declared constant in the model is
	// much cheaper for the solver than evaluating a defined term
	ex.symSeq["casesplit"]++
	probe := ex.ts.Sym(t.w, fmt.Sprintf("casesplit#%d.%d", len(ex.decisions), ex.symSeq["casesplit"]))
	pc2 = append(pc2, ex.ts.mk(OpEq, 0, probe, t, nil, 0, ""))
	{
		seen := map[*Term]bool{}
		syms := map[string]uint8{}
		Syms(t, seen, syms)
		for n := range syms {
			if !ex.entangled[n] {
				// the split term depends on this symbol: its unary constraints matter
				ex.entangled[n] = true
				ex.spc = append(ex.spc, ex.unaryBy[n]...)
			}
		}
	}
	for {
		r := ex.w.solver.Check(append(append([]*Term{}, ex.spc...), pc2...), nil)
		if r == Unknown {
			ex.w.noteUnknown("case split")
			break
		}
		if r == Unsat {
			break
		}
		v, ok := ex.w.solver.Value(probe)
		if !ok {
			ex.end("internal", "no value for term in case split")
		}
		vals = append(vals, int64(v))
		if len(vals) > max {
			ex.unsupported("case split of %s has more than %d values", what, max)
		}
		pc2 = append(pc2, ex.ts.BNot(ex.ts.Eq(t, ex.ts.Const(t.w, v))))
	}
	if len(vals) == 0 {
		ex.end("assumed", "infeasible at case split")
	}
	sort.Slice(vals, func(i, j int) bool { return uint64(vals[i]) < uint64(vals[j]) })
	v := ex.decideVals(vals)
	ex.addPC(ex.ts.Eq(t, ex.ts.Const(t.w, uint64(v))))
	return uint64(v)
}

// ---- goroutine scheduling (cooperative) ----

func (ex *Exec) runnable(g *G) bool {
	if g.done || g.sleeping {
		return false
	}
	if g.waitFn != nil {
		return g.waitFn()
	}
	return true
}

// schedEv is one visible operation in the schedule trace (schedule mode only).
type schedEv struct {
	G      int    `json:"g"`
	Kind   string `json:"kind"`
	Blocks bool   `json:"blocks,omitempty"`
	Sel    *int   `json:"sel,omitempty"` // select: index of the communication clause taken (-1: default)
}

// schedOrder lists the goroutines that can run now in the default scheduler's order of preference:
// non-yielding ones in creation order (the current one last among them), then yielding ones, then -
// only when nothing else can run - quiescing ones.
func (ex *Exec) schedOrder(me *G) []*G {
	var a, y, q []*G
	for _, g := range ex.gs {
		if g == me || g.done || !ex.runnable(g) {
			continue
		}
		switch {
		case g.quiescing:
			q = append(q, g)
		case g.yielding:
			y = append(y, g)
		default:
			a = append(a, g)
		}
	}
	if !me.done && ex.runnable(me) {
		switch {
		case me.quiescing:
			q = append(q, me)
		case me.yielding:
			y = append(y, me)
		default:
			a = append(a, me)
		}
	}
	r := append(a, y...)
	if len(r) == 0 {
		r = q
	}
	return r
}

// switchTo hands the token to next and parks the current goroutine until it is resumed.
func (ex *Exec) switchTo(me, next *G) {
	ex.cur = next
	next.yielding = false
	next.resume <- true
	if me.done {
		return
	}
	ok := <-me.resume
	if !ok {
		panic(killed{})
	}
	ex.cur = me
}

// reschedule picks the next goroutine to run. Called by the current goroutine when it blocks,
// yields or finishes. In schedule mode a choice other than the default one costs one deviation.
func (ex *Exec) reschedule() {
	me := ex.cur
	order := ex.schedOrder(me)
	if len(order) == 0 {
		if me.done {
			// everything finished or blocked, and the main goroutine is among the blocked
			ex.dead = true
			ex.inconclHint("deadlock: all goroutines blocked")
			ex.main.resume <- false
			return
		}
		ex.end("deadlock", "all goroutines blocked")
	}
	next := order[0]
	if ex.schedOn && ex.schedBudget > 0 && len(order) > 1 && !order[0].quiescing {
		vals := make([]int64, len(order))
		for k := range order {
			vals[k] = int64(k)
		}
		if c := ex.decideVals(vals); c > 0 {
			ex.schedBudget--
			ex.schedDev++
			next = order[c]
		}
	}
	if next == me {
		me.yielding = false
		return
	}
	ex.switchTo(me, next)
}

// schedPoint is called before every visible operation (channel operation, close, go statement,
// socket operation, sleep, harness environment action). In schedule mode, while deviations remain,
// the executor forks here over "the current goroutine goes on" and "another runnable goroutine runs
// first"; the operation is then appended to the schedule trace.
func (ex *Exec) schedPoint(kind string) {
	if !ex.schedOn {
		return
	}
	if ex.inMerge {
		panic(mergeBail{"visible operation"})
	}
	me := ex.cur
	if ex.schedBudget > 0 {
		var cands []*G
		for _, g := range ex.gs {
			if g != me && !g.done && !g.quiescing && ex.runnable(g) {
				cands = append(cands, g)
			}
		}
		if len(cands) > 0 {
			vals := make([]int64, len(cands)+1)
			for k := range vals {
				vals[k] = int64(k)
			}
			if c := ex.decideVals(vals); c > 0 {
				ex.schedBudget--
				ex.schedDev++
				ex.switchTo(me, cands[c-1])
			}
		}
	}
	ex.schedTrace = append(ex.schedTrace, schedEv{G: me.id, Kind: kind})
	me.lastEv = len(ex.schedTrace) - 1
}

// traceResume records that goroutine g goes on after having been parked (blocked operation, yield,
// quiesce, sleep) or starts running after its go statement. Natively no gate corresponds to it: the
// replay's scheduler consumes the event and from then on waits for g to reach its next gate or to
// finish before it releases anything else, so that the stretch of code g runs here is ordered as it
// was in the executor.
func (ex *Exec) traceResume(g *G) {
	if ex.schedOn {
		ex.schedTrace = append(ex.schedTrace, schedEv{G: g.id, Kind: "resume"})
	}
}

func (ex *Exec) inconclHint(s string) {
	if ex.inconcl == "" {
		ex.inconcl = s
	}
}

func (ex *Exec) blockUntil(f func() bool) {
	if f() {
		return
	}
	g := ex.cur
	if ex.schedOn && g.lastEv < len(ex.schedTrace) && ex.schedTrace[g.lastEv].G == g.id {
		ex.schedTrace[g.lastEv].Blocks = true
	}
	g.waitFn = f
	ex.reschedule()
	g.waitFn = nil
	ex.traceResume(g)
}

func (ex *Exec) spawn(fn Value, args []Value, call *ssa.CallCommon) {
	ex.schedPoint("go")
	g := &G{id: len(ex.gs), resume: make(chan bool, 1)}
	ex.gs = append(ex.gs, g)
	go func() {
		ok := <-g.resume
		if !ok {
			return
		}
		defer func() {
			r := recover()
			g.done = true
			switch e := r.(type) {
			case nil:
			case killed:
				return
			case pathEnd:
				// propagate to main goroutine
				ex.pendingEnd = &e
				ex.dead = true
				ex.main.resume <- false
				return
			case *goPanic:
				// uncaught panic in a goroutine crashes the process
				pe := pathEnd{"crash", ""}
				ex.crash = e
				ex.pendingEnd = &pe
				ex.dead = true
				ex.main.resume <- false
				return
			default:
				pe := pathEnd{"internal", fmt.Sprintf("%v", r)}
				ex.pendingEnd = &pe
				ex.dead = true
				ex.main.resume <- false
				return
			}
			ex.reschedule()
		}()
		ex.traceResume(g)
		ex.callValue(fn, args, call)
	}()
}

// ---- function calls ----

func (w *Worker) fnInfoOf(fn *ssa.Function) *fnInfo {
	if fi, ok := w.fnInfos[fn]; ok {
		return fi
	}
	fi := &fnInfo{idx: map[ssa.Value]int{}}
	add := func(v ssa.Value) {
		fi.idx[v] = fi.n
		fi.n++
	}
	for _, p := range fn.Params {
		add(p)
	}
	for _, fv := range fn.FreeVars {
		add(fv)
	}
	for _, b := range fn.Blocks {
		for _, in := range b.Instrs {
			if v, ok := in.(ssa.Value); ok {
				add(v)
			}
		}
	}
	w.fnInfos[fn] = fi
	return fi
}

func (ex *Exec) callValue(fv Value, args []Value, call *ssa.CallCommon) []Value {
	f, ok := fv.(FuncV)
	if !ok || f.fn == nil {
		ex.rtPanic("nil func call", "")
	}
	return ex.callFn(f.fn, args, f.free)
}

func (ex *Exec) callFn(fn *ssa.Function, args []Value, free []Value) (results []Value) {
	name := fn.String()
	if st, ok := stubs[name]; ok {
		ex.funcs["stub:"+name] = true
		return st(ex, fn, args)
	}
	if st := prefixStub(name, fn); st != nil {
		ex.funcs["stub:"+name] = true
		return st(ex, fn, args)
	}
	if fn.Blocks == nil {
		// a method wrapper or external function without body
		if fn.Synthetic != "" {
			ex.unsupported("synthetic function without body: %s (%s)", name, fn.Synthetic)
		}
		ex.unsupported("external function %s", name)
	}
	ex.funcs[name] = true
	g := ex.cur
	g.depth++
	if g.depth > 400 {
		ex.unsupported("call depth exceeded in %s", name)
	}
	ex.callStack = append(ex.callStack, name)
	defer func() { g.depth--; ex.callStack = ex.callStack[:len(ex.callStack)-1] }()
	fi := ex.w.fnInfoOf(fn)
	fr := &Frame{fn: fn, info: fi, env: make([]Value, fi.n)}
	for i, p := range fn.Params {
		fr.env[fi.idx[p]] = args[i]
	}
	for i, fv := range fn.FreeVars {
		fr.env[fi.idx[fv]] = free[i]
	}
	return ex.runFrame(fr)
}

// runFrame executes the frame's function; handles panics, defers and recover.
func (ex *Exec) runFrame(fr *Frame) (results []Value) {
	var gp *goPanic
	func() {
		defer func() {
			if r := recover(); r != nil {
				if p, ok := r.(*goPanic); ok {
					gp = p
					return
				}
				if ex.panicStack == nil {
					ex.panicStack = append([]string{}, ex.callStack...)
				}
				panic(r)
			}
		}()
		ex.runBlocks(fr, fr.fn.Blocks[0])
	}()
	if gp == nil {
		return fr.results
	}
	// panicking: run deferred calls (LIFO); a deferred call may recover
	fr.panicked = gp
	for fr.panicked != nil || len(fr.defers) > 0 {
		if len(fr.defers) == 0 {
			break
		}
		var gp2 *goPanic
		func() {
			defer func() {
				if r := recover(); r != nil {
					if p, ok := r.(*goPanic); ok {
						gp2 = p
						return
					}
					panic(r)
				}
			}()
			ex.runOneDefer(fr)
		}()
		if gp2 != nil {
			fr.panicked = gp2 // a new panic replaces the old one
		}
	}
	if fr.panicked != nil {
		panic(fr.panicked)
	}
	// recovered: continue in the Recover block, or return zero results
	if fr.fn.Recover != nil {
		fr.results = nil
		ex.runBlocks(fr, fr.fn.Recover)
		return fr.results
	}
	res := fr.fn.Signature.Results()
	out := make([]Value, res.Len())
	for i := range out {
		out[i] = ex.zero(res.At(i).Type())
	}
	return out
}

func (ex *Exec) runOneDefer(fr *Frame) {
	d := fr.defers[len(fr.defers)-1]
	fr.defers = fr.defers[:len(fr.defers)-1]
	ex.curDeferFrame = append(ex.curDeferFrame, fr)
	defer func() { ex.curDeferFrame = ex.curDeferFrame[:len(ex.curDeferFrame)-1] }()
	ex.doCall(fr, d.call, d.fn, d.args)
}

func (ex *Exec) rtPanic(kind, msg string) {
	site := ""
	panic(&goPanic{kind: kind, msg: msg, site: site})
}

// ---- block execution ----

func (ex *Exec) get(fr *Frame, v ssa.Value) Value {
	switch c := v.(type) {
	case *ssa.Const:
		return ex.constValue(c)
	case *ssa.Global:
		return PtrV{obj: ex.globalObj(c), off: 0}
	case *ssa.Function:
		return FuncV{fn: c}
	case *ssa.Builtin:
		return c
	}
	i, ok := fr.info.idx[v]
	if !ok {
		ex.end("internal", fmt.Sprintf("value %s not in frame of %s", v.Name(), fr.fn))
	}
	r := fr.env[i]
	if r == nil {
		ex.end("internal", fmt.Sprintf("value %s (%T) unset in %s", v.Name(), v, fr.fn))
	}
	return r
}

func (ex *Exec) set(fr *Frame, v ssa.Value, val Value) {
	fr.env[fr.info.idx[v]] = val
}

func (ex *Exec) constValue(c *ssa.Const) Value {
	t := c.Type()
	if c.Value == nil {
		return ex.zero(t)
	}
	switch u := t.Underlying().(type) {
	case *types.Basic:
		switch {
		case u.Info()&types.IsBoolean != 0:
			return ex.ts.Bool(constant.BoolVal(c.Value))
		case u.Info()&types.IsInteger != 0:
			w, _ := intWidth(u)
			if i, ok := constant.Int64Val(constant.ToInt(c.Value)); ok {
				return ex.ts.Const(w, uint64(i))
			}
			ui, _ := constant.Uint64Val(constant.ToInt(c.Value))
			return ex.ts.Const(w, ui)
		case u.Info()&types.IsString != 0:
			return ex.strConst(constant.StringVal(c.Value))
		case u.Info()&types.IsFloat != 0:
			f, _ := constant.Float64Val(c.Value)
			return FloatV{f, true}
		}
	}
	ex.unsupported("constant of type %s", t)
	return nil
}

func (ex *Exec) globalObj(g *ssa.Global) *Obj {
	if o, ok := ex.globals[g]; ok {
		return o
	}
	et := g.Type().(*types.Pointer).Elem()
	o := ex.allocObj(et, "global:"+g.String())
	ex.globals[g] = o
	// uninitialised std sentinel errors get a unique opaque identity
	if g.Pkg != nil && !ex.w.sh.initPkgs[g.Pkg.Pkg.Path()] {
		if types.Identical(et, errorType) {
			o.set(0, ex.sentinel(g.String()))
		}
	}
	return o
}

var errorType = types.Universe.Lookup("error").Type()

type sentinelT struct{ name string }

func (ex *Exec) sentinel(name string) IfaceV {
	if s, ok := ex.sentinels[name]; ok {
		return s
	}
	// dynamic type: a distinct named empty struct pointer; identity via object
	o := ex.newObj(1, "sentinel:"+name)
	o.tag = sentinelT{name}
	s := IfaceV{t: sentinelType, v: PtrV{obj: o}}
	ex.sentinels[name] = s
	return s
}

var sentinelType = types.NewPointer(types.NewNamed(types.NewTypeName(token.NoPos, nil, "verifSentinelError", nil), types.NewStruct(nil, nil), nil))

func (ex *Exec) runBlocks(fr *Frame, start *ssa.BasicBlock) {
	block := start
	var prev *ssa.BasicBlock
	for block != nil {
		next := ex.runBlock(fr, block, prev)
		prev = block
		if fr.prevOverride != nil {
			prev = fr.prevOverride
			fr.prevOverride = nil
		}
		block = next
	}
}

// runBlock executes one block and returns the successor (nil on return).
func (ex *Exec) runBlock(fr *Frame, b *ssa.BasicBlock, prev *ssa.BasicBlock) *ssa.BasicBlock {
	// loop bound (unwinding check)
	if len(b.Preds) > 1 {
		if fr.loops == nil {
			fr.loops = map[*ssa.BasicBlock]int{}
		}
		fr.loops[b]++
		if fr.loops[b] > ex.w.sh.unwind {
			ex.end("unwind", fmt.Sprintf("loop bound %d exceeded in %s block %d", ex.w.sh.unwind, fr.fn, b.Index))
		}
	}
	// phis first, evaluated simultaneously
	nphi := 0
	for _, in := range b.Instrs {
		if _, ok := in.(*ssa.Phi); ok {
			nphi++
		} else {
			break
		}
	}
	if fr.skipPhis {
		fr.skipPhis = false
	} else if nphi > 0 {
		pi := -1
		for i, p := range b.Preds {
			if p == prev {
				pi = i
				break
			}
		}
		if pi < 0 {
			ex.end("internal", "phi without matching predecessor")
		}
		vals := make([]Value, nphi)
		for i := 0; i < nphi; i++ {
			vals[i] = ex.get(fr, b.Instrs[i].(*ssa.Phi).Edges[pi])
		}
		for i := 0; i < nphi; i++ {
			ex.set(fr, b.Instrs[i].(*ssa.Phi), vals[i])
		}
	}
	for _, in := range b.Instrs[nphi:] {
		ex.steps++
		if ex.steps > ex.maxStep {
			ex.end("unwind", fmt.Sprintf("step budget %d exceeded in %s", ex.maxStep, fr.fn))
		}
		switch i := in.(type) {
		case *ssa.If:
			c := ex.get(fr, i.Cond).(*Term)
			if v, decided := ex.quickDecide(c); decided {
				if v {
					return b.Succs[0]
				}
				return b.Succs[1]
			}
			if nb, ok := ex.tryMerge(fr, b, c); ok {
				return nb
			}
			if t, f, disj, ok := ex.caseChain(fr, b, c); ok {
				if ex.branch(disj) {
					return t
				}
				fr.prevOverride = f.prev
				return f.blk
			}
			if ex.branch(c) {
				return b.Succs[0]
			}
			return b.Succs[1]
		case *ssa.Jump:
			return b.Succs[0]
		case *ssa.Return:
			res := make([]Value, len(i.Results))
			for k, r := range i.Results {
				res[k] = ex.get(fr, r)
			}
			fr.results = res
			return nil
		case *ssa.Panic:
			v := ex.get(fr, i.X)
			panic(&goPanic{val: v, kind: "explicit panic", site: fr.fn.String()})
		default:
			func() {
				defer func() {
					if r := recover(); r != nil {
						if p, ok := r.(*goPanic); ok && p.site == "" {
							p.site = fr.fn.String()
						}
						panic(r)
					}
				}()
				ex.exec(fr, in)
			}()
		}
	}
	ex.end("internal", "block without terminator")
	return nil
}

func (ex *Exec) exec(fr *Frame, in ssa.Instruction) {
	ts := ex.ts
	switch i := in.(type) {
	case *ssa.DebugRef:
	case *ssa.Alloc:
		et := i.Type().(*types.Pointer).Elem()
		o := ex.allocObj(et, i.Comment)
		ex.set(fr, i, PtrV{obj: o})
	case *ssa.BinOp:
		ex.set(fr, i, ex.binop(i.Op, ex.get(fr, i.X), ex.get(fr, i.Y), i.X.Type(), i.Y.Type()))
	case *ssa.UnOp:
		ex.set(fr, i, ex.unop(fr, i))
	case *ssa.Call:
		res := ex.doCallInstr(fr, &i.Call)
		sig := i.Call.Signature()
		switch sig.Results().Len() {
		case 0:
			ex.set(fr, i, TupleV{})
		case 1:
			if len(res) != 1 {
				ex.end("internal", fmt.Sprintf("call %s returned %d results", i, len(res)))
			}
			ex.set(fr, i, res[0])
		default:
			ex.set(fr, i, TupleV(res))
		}
	case *ssa.ChangeInterface:
		ex.set(fr, i, ex.get(fr, i.X))
	case *ssa.ChangeType:
		ex.set(fr, i, ex.get(fr, i.X))
	case *ssa.Convert:
		ex.set(fr, i, ex.convert(ex.get(fr, i.X), i.X.Type(), i.Type()))
	case *ssa.MultiConvert:
		ex.set(fr, i, ex.convert(ex.get(fr, i.X), i.X.Type(), i.Type()))
	case *ssa.Defer:
		fv, args := ex.prepareCall(fr, &i.Call)
		fr.defers = append(fr.defers, deferred{fn: fv, args: args, call: &i.Call})
	case *ssa.RunDefers:
		for len(fr.defers) > 0 {
			ex.runOneDefer(fr)
		}
	case *ssa.Extract:
		ex.set(fr, i, ex.get(fr, i.Tuple).(TupleV)[i.Index])
	case *ssa.Field:
		ex.set(fr, i, ex.get(fr, i.X).(StructV).f[i.Field])
	case *ssa.FieldAddr:
		p := ex.get(fr, i.X).(PtrV)
		if p.obj == nil {
			ex.rtPanic("nil pointer dereference", "field address")
		}
		st := i.X.Type().Underlying().(*types.Pointer).Elem().Underlying().(*types.Struct)
		ex.set(fr, i, PtrV{obj: p.obj, off: p.off + ex.fieldOffset(st, i.Field)})
	case *ssa.Go:
		fv, args := ex.prepareCall(fr, &i.Call)
		ex.spawnCall(fr, &i.Call, fv, args)
	case *ssa.Index:
		ex.set(fr, i, ex.index(fr, i))
	case *ssa.IndexAddr:
		ex.set(fr, i, ex.indexAddr(fr, i))
	case *ssa.Lookup:
		ex.set(fr, i, ex.lookup(fr, i))
	case *ssa.MakeChan:
		n := ex.get(fr, i.Size).(*Term)
		o := ex.newObj(0, "chan")
		o.isChan = true
		o.capn = int(ex.concretize(n, 64, "chan size"))
		o.elemT = i.Type().Underlying().(*types.Chan).Elem()
		ex.set(fr, i, ChanV{o})
	case *ssa.MakeClosure:
		free := make([]Value, len(i.Bindings))
		for k, b := range i.Bindings {
			free[k] = ex.get(fr, b)
		}
		ex.set(fr, i, FuncV{fn: i.Fn.(*ssa.Function), free: free})
	case *ssa.MakeInterface:
		ex.set(fr, i, IfaceV{t: i.X.Type(), v: ex.get(fr, i.X)})
	case *ssa.MakeMap:
		o := ex.newObj(0, "map")
		o.isMap = true
		mt := i.Type().Underlying().(*types.Map)
		o.keyT, o.valT = mt.Key(), mt.Elem()
		ex.set(fr, i, MapV{o})
	case *ssa.MakeSlice:
		ln := ex.get(fr, i.Len).(*Term)
		cp := ex.get(fr, i.Cap).(*Term)
		l := int64(ex.concretize(ex.toInt64(ln, i.Len.Type()), 1100, "make len"))
		c := int64(ex.concretize(ex.toInt64(cp, i.Cap.Type()), 1100, "make cap"))
		if l < 0 || c < l {
			ex.rtPanic("makeslice: len out of range", "")
		}
		if c > 1<<31 {
			ex.rtPanic("makeslice: cap out of range (allocation too large)", "")
		}
		et := i.Type().Underlying().(*types.Slice).Elem()
		o := ex.makeSliceObj(et, int(c), "makeslice")
		ex.set(fr, i, SliceV{obj: o, off: 0, len: int(l), cap: int(c), es: ex.slots(et)})
	case *ssa.MapUpdate:
		m := ex.get(fr, i.Map).(MapV)
		if m.obj == nil {
			ex.rtPanic("assignment to entry in nil map", "")
		}
		ex.mapSet(m.obj, ex.get(fr, i.Key), ex.get(fr, i.Value))
	case *ssa.Next:
		ex.set(fr, i, ex.next(fr, i))
	case *ssa.Range:
		ex.set(fr, i, ex.rangeIter(fr, i))
	case *ssa.Select:
		ex.set(fr, i, ex.selectInstr(fr, i))
	case *ssa.Send:
		ch := ex.get(fr, i.Chan).(ChanV)
		ex.chanSend(ch, ex.get(fr, i.X))
	case *ssa.Slice:
		ex.set(fr, i, ex.sliceInstr(fr, i))
	case *ssa.SliceToArrayPointer:
		s := ex.get(fr, i.X).(SliceV)
		n := int(i.Type().Underlying().(*types.Pointer).Elem().Underlying().(*types.Array).Len())
		if s.len < n {
			ex.rtPanic("slice to array pointer: length too short", "")
		}
		if s.obj == nil {
			ex.set(fr, i, PtrV{})
		} else {
			ex.set(fr, i, PtrV{obj: s.obj, off: s.off})
		}
	case *ssa.Store:
		p := ex.get(fr, i.Addr).(PtrV)
		if p.obj == nil {
			ex.rtPanic("nil pointer dereference", "store")
		}
		ex.storeVal(p.obj, p.off, i.Val.Type(), ex.get(fr, i.Val))
	case *ssa.TypeAssert:
		ex.set(fr, i, ex.typeAssert(fr, i))
	default:
		_ = ts
		ex.unsupported("instruction %T in %s", in, fr.fn)
	}
}

func (ex *Exec) toInt64(t *Term, ty types.Type) *Term {
	w, signed := typeWidth(ty)
	if w == 64 {
		return t
	}
	if signed {
		return ex.ts.SExt(t, 64)
	}
	return ex.ts.ZExt(t, 64)
}

// ---- operators ----

func (ex *Exec) unop(fr *Frame, i *ssa.UnOp) Value {
	x := ex.get(fr, i.X)
	switch i.Op {
	case token.MUL: // load
		p := x.(PtrV)
		if p.obj == nil {
			ex.rtPanic("nil pointer dereference", "load")
		}
		return ex.loadVal(p.obj, p.off, i.Type())
	case token.NOT:
		return ex.ts.BNot(x.(*Term))
	case token.SUB:
		if f, ok := x.(FloatV); ok {
			return FloatV{-f.f, f.known}
		}
		return ex.ts.Neg(x.(*Term))
	case token.XOR:
		return ex.ts.Not(x.(*Term))
	case token.ARROW:
		ch := x.(ChanV)
		v, ok := ex.chanRecv(ch, i.X.Type().Underlying().(*types.Chan).Elem())
		if i.CommaOk {
			return TupleV{v, ex.ts.Bool(ok)}
		}
		return v
	}
	ex.unsupported("unop %s", i.Op)
	return nil
}

func (ex *Exec) binop(op token.Token, x, y Value, xt, yt types.Type) Value {
	ts := ex.ts
	switch a := x.(type) {
	case *Term:
		b := y.(*Term)
		if a.w == 0 { // booleans
			switch op {
			case token.EQL:
				return ts.Eq(a, b)
			case token.NEQ:
				return ts.BNot(ts.Eq(a, b))
			case token.AND, token.LAND:
				return ts.BAnd(a, b)
			case token.OR, token.LOR:
				return ts.BOr(a, b)
			}
			ex.unsupported("bool binop %s", op)
		}
		_, signed := typeWidth(xt)
		switch op {
		case token.ADD:
			return ts.Bin(OpAdd, a, b)
		case token.SUB:
			return ts.Bin(OpSub, a, b)
		case token.MUL:
			return ts.Bin(OpMul, a, b)
		case token.QUO, token.REM:
			if !ex.branch(ts.BNot(ts.Eq(b, ts.Const(b.w, 0)))) {
				ex.rtPanic("integer divide by zero", "")
			}
			if op == token.QUO {
				if signed {
					return ts.Bin(OpSDiv, a, b)
				}
				return ts.Bin(OpUDiv, a, b)
			}
			if signed {
				return ts.Bin(OpSRem, a, b)
			}
			return ts.Bin(OpURem, a, b)
		case token.AND:
			return ts.Bin(OpAnd, a, b)
		case token.OR:
			return ts.Bin(OpOr, a, b)
		case token.XOR:
			return ts.Bin(OpXor, a, b)
		case token.AND_NOT:
			return ts.Bin(OpAnd, a, ts.Not(b))
		case token.SHL, token.SHR:
			_, ysigned := typeWidth(yt)
			if ysigned {
				if !ex.branch(ts.Cmp(OpSle, ts.Const(b.w, 0), b)) {
					ex.rtPanic("negative shift amount", "")
				}
			}
			sop := OpShl
			if op == token.SHR {
				sop = OpLShr
				if signed {
					sop = OpAShr
				}
			}
			if b.w <= a.w {
				return ts.Bin(sop, a, ts.ZExt(b, a.w))
			}
			big := ts.Cmp(OpUle, ts.Const(b.w, uint64(a.w)), b)
			sh := ts.Bin(sop, a, ts.Extract(b, a.w-1, 0))
			over := ts.Const(a.w, 0)
			if sop == OpAShr {
				over = ts.Bin(OpAShr, a, ts.Const(a.w, uint64(a.w-1)))
			}
			return ts.Ite(big, over, sh)
		case token.EQL:
			return ts.Eq(a, b)
		case token.NEQ:
			return ts.BNot(ts.Eq(a, b))
		case token.LSS:
			if signed {
				return ts.Cmp(OpSlt, a, b)
			}
			return ts.Cmp(OpUlt, a, b)
		case token.LEQ:
			if signed {
				return ts.Cmp(OpSle, a, b)
			}
			return ts.Cmp(OpUle, a, b)
		case token.GTR:
			if signed {
				return ts.Cmp(OpSlt, b, a)
			}
			return ts.Cmp(OpUlt, b, a)
		case token.GEQ:
			if signed {
				return ts.Cmp(OpSle, b, a)
			}
			return ts.Cmp(OpUle, b, a)
		}
	case StrV:
		b := y.(StrV)
		switch op {
		case token.ADD:
			if a.opaque || b.opaque {
				return StrV{opaque: true}
			}
			r := make([]*Term, 0, len(a.b)+len(b.b))
			r = append(r, a.b...)
			r = append(r, b.b...)
			return StrV{b: r}
		case token.EQL:
			return ex.strEq(a, b)
		case token.NEQ:
			return ts.BNot(ex.strEq(a, b))
		case token.LSS:
			return ex.strLess(a, b)
		case token.GTR:
			return ex.strLess(b, a)
		case token.LEQ:
			return ts.BNot(ex.strLess(b, a))
		case token.GEQ:
			return ts.BNot(ex.strLess(a, b))
		}
	case FloatV:
		b := y.(FloatV)
		if a.known && b.known {
			switch op {
			case token.ADD:
				return FloatV{a.f + b.f, true}
			case token.SUB:
				return FloatV{a.f - b.f, true}
			case token.MUL:
				return FloatV{a.f * b.f, true}
			case token.QUO:
				return FloatV{a.f / b.f, true}
			case token.EQL:
				return ts.Bool(a.f == b.f)
			case token.NEQ:
				return ts.Bool(a.f != b.f)
			case token.LSS:
				return ts.Bool(a.f < b.f)
			case token.LEQ:
				return ts.Bool(a.f <= b.f)
			case token.GTR:
				return ts.Bool(a.f > b.f)
			case token.GEQ:
				return ts.Bool(a.f >= b.f)
			}
		}
		switch op {
		case token.ADD, token.SUB, token.MUL, token.QUO:
			return FloatV{}
		}
		ex.unsupported("comparison of unknown floats")
	default:
		switch op {
		case token.EQL:
			return ex.valEq(x, y)
		case token.NEQ:
			return ts.BNot(ex.valEq(x, y))
		}
	}
	ex.unsupported("binop %s on %T", op, x)
	return nil
}

func (ex *Exec) strEq(a, b StrV) *Term {
	if a.opaque || b.opaque {
		ex.unsupported("comparison of opaque string")
	}
	if len(a.b) != len(b.b) {
		return ex.ts.ff
	}
	r := ex.ts.tt
	for i := range a.b {
		r = ex.ts.BAnd(r, ex.ts.Eq(a.b[i], b.b[i]))
		if r.IsFalse() {
			return r
		}
	}
	return r
}

func (ex *Exec) strLess(a, b StrV) *Term {
	if a.opaque || b.opaque {
		ex.unsupported("comparison of opaque string")
	}
	ts := ex.ts
	n := len(a.b)
	if len(b.b) < n {
		n = len(b.b)
	}
	// from the end: result if all first n bytes equal
	r := ts.Bool(len(a.b) < len(b.b))
	for i := n - 1; i >= 0; i-- {
		r = ts.Ite(ts.Eq(a.b[i], b.b[i]), r, ts.Cmp(OpUlt, a.b[i], b.b[i]))
	}
	return r
}

// valEq: structural == on comparable values.
func (ex *Exec) valEq(x, y Value) *Term {
	ts := ex.ts
	switch a := x.(type) {
	case *Term:
		b, ok := y.(*Term)
		if !ok || a.w != b.w {
			return ts.ff
		}
		return ts.Eq(a, b)
	case StrV:
		b, ok := y.(StrV)
		if !ok {
			return ts.ff
		}
		return ex.strEq(a, b)
	case PtrV:
		b, ok := y.(PtrV)
		if !ok {
			return ts.ff
		}
		return ts.Bool(a.obj == b.obj && (a.obj == nil || a.off == b.off))
	case IfaceV:
		b, ok := y.(IfaceV)
		if !ok {
			return ts.ff
		}
		if a.t == nil || b.t == nil {
			return ts.Bool(a.t == nil && b.t == nil)
		}
		if !types.Identical(a.t, b.t) {
			return ts.ff
		}
		return ex.valEq(a.v, b.v)
	case MapV:
		b := y.(MapV)
		return ts.Bool(a.obj == b.obj)
	case ChanV:
		b := y.(ChanV)
		return ts.Bool(a.obj == b.obj)
	case FuncV:
		b := y.(FuncV)
		return ts.Bool(a.fn == nil && b.fn == nil)
	case SliceV:
		b := y.(SliceV)
		return ts.Bool(a.obj == nil && b.obj == nil)
	case StructV:
		b := y.(StructV)
		r := ts.tt
		for i := range a.f {
			r = ts.BAnd(r, ex.valEq(a.f[i], b.f[i]))
		}
		return r
	case ArrayV:
		b := y.(ArrayV)
		r := ts.tt
		for i := range a.e {
			r = ts.BAnd(r, ex.valEq(a.e[i], b.e[i]))
		}
		return r
	case FloatV:
		b := y.(FloatV)
		if a.known && b.known {
			return ts.Bool(a.f == b.f)
		}
	}
	ex.unsupported("equality on %T", x)
	return nil
}

func (ex *Exec) convert(x Value, from, to types.Type) Value {
	ts := ex.ts
	fu, tu := from.Underlying(), to.Underlying()
	switch {
	case isIntType(from) && isIntType(to):
		t := x.(*Term)
		fw, fs := typeWidth(from)
		tw, _ := typeWidth(to)
		if tw == fw {
			return t
		}
		if tw < fw {
			return ts.Extract(t, tw-1, 0)
		}
		if fs {
			return ts.SExt(t, tw)
		}
		return ts.ZExt(t, tw)
	case isIntType(from) && isFloatType(to):
		t := x.(*Term)
		if t.IsConst() {
			_, fs := typeWidth(from)
			if fs {
				return FloatV{float64(t.SignedConst()), true}
			}
			return FloatV{float64(t.k), true}
		}
		return FloatV{}
	case isFloatType(from) && isFloatType(to):
		return x
	case isFloatType(from) && isIntType(to):
		f := x.(FloatV)
		tw, _ := typeWidth(to)
		if f.known && !math.IsNaN(f.f) {
			return ts.Const(tw, uint64(int64(f.f)))
		}
		ex.unsupported("float to int conversion of unknown float")
	case isStringType(from) && isStringType(to):
		return x
	case isStringType(to):
		// []byte -> string, []rune -> string, int -> string
		if sl, ok := fu.(*types.Slice); ok {
			s := x.(SliceV)
			if b, ok := sl.Elem().Underlying().(*types.Basic); ok && b.Kind() == types.Uint8 {
				if s.obj == nil {
					return StrV{}
				}
				return StrV{b: ex.sliceBytes(s)}
			}
			// []rune
			var out []byte
			for i := 0; i < s.len; i++ {
				r := s.obj.get(s.off + i).(*Term)
				if !r.IsConst() {
					ex.unsupported("[]rune to string with symbolic rune")
				}
				out = append(out, string(rune(r.SignedConst()))...)
			}
			return ex.strConst(string(out))
		}
		if isIntType(from) {
			t := x.(*Term)
			if t.IsConst() {
				return ex.strConst(string(rune(t.SignedConst())))
			}
			ex.unsupported("int to string with symbolic value")
		}
	case isStringType(from):
		if sl, ok := tu.(*types.Slice); ok {
			s := x.(StrV)
			if s.opaque {
				ex.unsupported("opaque string to slice")
			}
			if b, ok := sl.Elem().Underlying().(*types.Basic); ok && b.Kind() == types.Uint8 {
				return ex.newByteSlice(s.b, 0, "[]byte(string)")
			}
			cs, ok := concreteStr(s)
			if !ok {
				ex.unsupported("string to []rune with symbolic bytes")
			}
			rs := []rune(cs)
			o := ex.newObj(len(rs), "[]rune")
			for i, r := range rs {
				o.set(i, ts.Const(32, uint64(r)))
			}
			return SliceV{obj: o, len: len(rs), cap: len(rs), es: 1}
		}
	}
	if _, ok := tu.(*types.Pointer); ok {
		return x // unsafe.Pointer conversions: keep the pointer
	}
	if b, ok := tu.(*types.Basic); ok && b.Kind() == types.UnsafePointer {
		return x
	}
	ex.unsupported("conversion %s -> %s", from, to)
	return nil
}

// ---- indexing and slicing ----

func (ex *Exec) idxInt(fr *Frame, v ssa.Value) *Term {
	return ex.toInt64(ex.get(fr, v).(*Term), v.Type())
}

// boundsCheck ensures 0 <= i < n (n concrete); returns the concrete index.
func (ex *Exec) boundsCheck(i *Term, n int, what string) int {
	ts := ex.ts
	if i.IsConst() {
		v := i.SignedConst()
		if v < 0 || v >= int64(n) {
			ex.rtPanic("index out of range", fmt.Sprintf("%s [%d] with length %d", what, v, n))
		}
		return int(v)
	}
	ok := ts.Cmp(OpUlt, i, ts.Const(64, uint64(n)))
	if !ex.branch(ok) {
		ex.rtPanic("index out of range", fmt.Sprintf("%s [symbolic] with length %d", what, n))
	}
	return int(ex.concretize(i, 1100, "index"))
}

func (ex *Exec) indexAddr(fr *Frame, i *ssa.IndexAddr) Value {
	x := ex.get(fr, i.X)
	idx := ex.idxInt(fr, i.Index)
	switch b := x.(type) {
	case SliceV:
		k := ex.boundsCheck(idx, b.len, "slice")
		return PtrV{obj: b.obj, off: b.off + k*b.es}
	case PtrV:
		if b.obj == nil {
			ex.rtPanic("nil pointer dereference", "index of nil array pointer")
		}
		at := i.X.Type().Underlying().(*types.Pointer).Elem().Underlying().(*types.Array)
		k := ex.boundsCheck(idx, int(at.Len()), "array")
		return PtrV{obj: b.obj, off: b.off + k*ex.slots(at.Elem())}
	}
	ex.unsupported("IndexAddr on %T", x)
	return nil
}

func (ex *Exec) index(fr *Frame, i *ssa.Index) Value {
	x := ex.get(fr, i.X)
	idx := ex.idxInt(fr, i.Index)
	switch b := x.(type) {
	case ArrayV:
		k := ex.boundsCheck(idx, len(b.e), "array")
		return b.e[k]
	case StrV:
		if b.opaque {
			ex.unsupported("index of opaque string")
		}
		return ex.indexBytes(b.b, idx, "string")
	}
	ex.unsupported("Index on %T", x)
	return nil
}

// indexBytes reads element idx of a term vector; a symbolic index becomes an ite chain.
func (ex *Exec) indexBytes(b []*Term, idx *Term, what string) *Term {
	ts := ex.ts
	if idx.IsConst() {
		return b[ex.boundsCheck(idx, len(b), what)]
	}
	ok := ts.Cmp(OpUlt, idx, ts.Const(64, uint64(len(b))))
	if !ex.branch(ok) {
		ex.rtPanic("index out of range", fmt.Sprintf("%s [symbolic] with length %d", what, len(b)))
	}
	if len(b) > 256 {
		return b[int(ex.concretize(idx, 1100, "index"))]
	}
	r := b[len(b)-1]
	for k := len(b) - 2; k >= 0; k-- {
		r = ts.Ite(ts.Eq(idx, ts.Const(64, uint64(k))), b[k], r)
	}
	return r
}

func (ex *Exec) lookup(fr *Frame, i *ssa.Lookup) Value {
	x := ex.get(fr, i.X)
	if s, ok := x.(StrV); ok {
		if s.opaque {
			ex.unsupported("index of opaque string")
		}
		return ex.indexBytes(s.b, ex.idxInt(fr, i.Index), "string")
	}
	m := x.(MapV)
	key := ex.get(fr, i.Index)
	vt := i.X.Type().Underlying().(*types.Map).Elem()
	var v Value
	found := false
	if m.obj != nil {
		if e := ex.mapFind(m.obj, key); e != nil {
			v, found = e.val, true
		}
	}
	if !found {
		v = ex.zero(vt)
	}
	if i.CommaOk {
		return TupleV{v, ex.ts.Bool(found)}
	}
	return v
}

func (ex *Exec) sliceInstr(fr *Frame, i *ssa.Slice) Value {
	x := ex.get(fr, i.X)
	var lo, hi, mx *Term
	if i.Low != nil {
		lo = ex.idxInt(fr, i.Low)
	}
	if i.High != nil {
		hi = ex.idxInt(fr, i.High)
	}
	if i.Max != nil {
		mx = ex.idxInt(fr, i.Max)
	}
	ts := ex.ts
	conc := func(t *Term, def int) int {
		if t == nil {
			return def
		}
		return int(int64(ex.concretize(t, 1100, "slice bound")))
	}
	// the checks below are done symbolically first so that a violation is a single fork
	check := func(lenN, capN int, isStr bool) (int, int, int) {
		limit := capN
		if isStr {
			limit = lenN
		}
		loT, hiT, mxT := lo, hi, mx
		if loT == nil {
			loT = ts.Const(64, 0)
		}
		if hiT == nil {
			hiT = ts.Const(64, uint64(lenN))
		}
		ok := ts.tt
		if mxT != nil {
			ok = ts.BAnd(ok, ts.Cmp(OpUle, mxT, ts.Const(64, uint64(capN))))
			ok = ts.BAnd(ok, ts.Cmp(OpUle, hiT, mxT))
		} else {
			ok = ts.BAnd(ok, ts.Cmp(OpUle, hiT, ts.Const(64, uint64(limit))))
		}
		ok = ts.BAnd(ok, ts.Cmp(OpUle, loT, hiT))
		if !ex.branch(ok) {
			ex.rtPanic("slice bounds out of range", fmt.Sprintf("[%s:%s:%s] with length %d capacity %d", termBrief(lo), termBrief(hi), termBrief(mx), lenN, capN))
		}
		l := conc(lo, 0)
		h := conc(hi, lenN)
		m := conc(mx, capN)
		return l, h, m
	}
	switch b := x.(type) {
	case SliceV:
		l, h, m := check(b.len, b.cap, false)
		if b.obj == nil {
			return b
		}
		return SliceV{obj: b.obj, off: b.off + l*b.es, len: h - l, cap: m - l, es: b.es}
	case StrV:
		if b.opaque {
			ex.unsupported("slice of opaque string")
		}
		l, h, _ := check(len(b.b), len(b.b), true)
		return StrV{b: b.b[l:h]}
	case PtrV:
		if b.obj == nil {
			ex.rtPanic("nil pointer dereference", "slice of nil array pointer")
		}
		at := i.X.Type().Underlying().(*types.Pointer).Elem().Underlying().(*types.Array)
		n := int(at.Len())
		l, h, m := check(n, n, false)
		es := ex.slots(at.Elem())
		return SliceV{obj: b.obj, off: b.off + l*es, len: h - l, cap: m - l, es: es}
	}
	ex.unsupported("Slice on %T", x)
	return nil
}

func termBrief(t *Term) string {
	if t == nil {
		return ""
	}
	if t.IsConst() {
		return fmt.Sprint(t.SignedConst())
	}
	return "sym"
}

// ---- maps ----

func (ex *Exec) mapFind(o *Obj, key Value) *mapEntry {
	for _, e := range o.entries {
		if e.deleted {
			continue
		}
		eq := ex.valEq(e.key, key)
		if ex.branch(eq) {
			return e
		}
	}
	return nil
}

func (ex *Exec) mapSet(o *Obj, key, val Value) {
	if e := ex.mapFind(o, key); e != nil {
		e.val = val
		return
	}
	o.entries = append(o.entries, &mapEntry{key: key, val: val})
}

func (ex *Exec) mapDelete(o *Obj, key Value) {
	if e := ex.mapFind(o, key); e != nil {
		e.deleted = true
	}
}

func (ex *Exec) mapLen(o *Obj) int {
	n := 0
	for _, e := range o.entries {
		if !e.deleted {
			n++
		}
	}
	return n
}

type RangeIter struct {
	str  StrV
	pos  int
	m    *Obj
	snap []*mapEntry
	isM  bool
}

func (ex *Exec) rangeIter(fr *Frame, i *ssa.Range) Value {
	x := ex.get(fr, i.X)
	switch v := x.(type) {
	case StrV:
		if v.opaque {
			ex.unsupported("range over opaque string")
		}
		return &RangeIter{str: v}
	case MapV:
		it := &RangeIter{isM: true, m: v.obj}
		if v.obj != nil {
			for _, e := range v.obj.entries {
				if !e.deleted {
					it.snap = append(it.snap, e)
				}
			}
			// map iteration order: insertion order rotated by a per-run choice
			if rot := ex.w.sh.mapRotate; rot > 0 && len(it.snap) > 1 {
				k := rot % len(it.snap)
				it.snap = append(append([]*mapEntry{}, it.snap[k:]...), it.snap[:k]...)
			}
		}
		return it
	}
	ex.unsupported("range over %T", x)
	return nil
}

func (ex *Exec) next(fr *Frame, i *ssa.Next) Value {
	it := ex.get(fr, i.Iter).(*RangeIter)
	ts := ex.ts
	if it.isM {
		for it.pos < len(it.snap) {
			e := it.snap[it.pos]
			it.pos++
			if e.deleted {
				continue
			}
			return TupleV{ts.tt, e.key, e.val}
		}
		tt := i.Type().(*types.Tuple)
		var k, v Value = ts.Const(64, 0), ts.Const(64, 0)
		if _, isInvalid := tt.At(1).Type().(*types.Basic); !isInvalid || tt.At(1).Type().(*types.Basic).Kind() != types.Invalid {
			k = ex.zero(tt.At(1).Type())
		}
		if b, isB := tt.At(2).Type().(*types.Basic); !isB || b.Kind() != types.Invalid {
			v = ex.zero(tt.At(2).Type())
		}
		return TupleV{ts.ff, k, v}
	}
	// string iteration (runes)
	if it.pos >= len(it.str.b) {
		return TupleV{ts.ff, ts.Const(64, 0), ts.Const(32, 0)}
	}
	b0 := it.str.b[it.pos]
	if b0.IsConst() && b0.k >= 0x80 {
		// decode concretely if the needed bytes are concrete
		rest := it.str.b[it.pos:]
		var buf []byte
		for k := 0; k < len(rest) && k < 4; k++ {
			if !rest[k].IsConst() {
				break
			}
			buf = append(buf, byte(rest[k].k))
		}
		r, sz := decodeRune(buf)
		p := it.pos
		it.pos += sz
		return TupleV{ts.tt, ts.Const(64, uint64(p)), ts.Const(32, uint64(r))}
	}
	if !b0.IsConst() {
		if !ex.branch(ts.Cmp(OpUlt, b0, ts.Const(8, 0x80))) {
			ex.unsupported("range over string with symbolic non-ASCII byte")
		}
	}
	p := it.pos
	it.pos++
	return TupleV{ts.tt, ts.Const(64, uint64(p)), ts.ZExt(b0, 32)}
}

func decodeRune(b []byte) (rune, int) {
	for i, r := range string(b) {
		_ = i
		n := len(string(r))
		if r == 0xFFFD {
			n = 1
		}
		return r, n
	}
	return 0xFFFD, 1
}

// ---- type assertions and interfaces ----

func (ex *Exec) implements(t types.Type, it *types.Interface) bool {
	return types.Implements(t, it)
}

func (ex *Exec) typeAssert(fr *Frame, i *ssa.TypeAssert) Value {
	x := ex.get(fr, i.X).(IfaceV)
	var ok bool
	var res Value
	if it, isI := i.AssertedType.Underlying().(*types.Interface); isI {
		ok = x.t != nil && x.t != sentinelType && ex.implements(x.t, it)
		if x.t == sentinelType {
			// sentinel errors implement error only
			ok = it.NumMethods() == 1 && it.Method(0).Name() == "Error"
		}
		if ok {
			res = x
		} else {
			res = IfaceV{}
		}
	} else {
		ok = x.t != nil && types.Identical(x.t, i.AssertedType)
		if ok {
			res = x.v
		} else {
			res = ex.zero(i.AssertedType)
		}
	}
	if i.CommaOk {
		return TupleV{res, ex.ts.Bool(ok)}
	}
	if !ok {
		ex.rtPanic("interface conversion failed", fmt.Sprintf("%v is not %s", x.t, i.AssertedType))
	}
	return res
}

// ---- calls ----

func (ex *Exec) prepareCall(fr *Frame, c *ssa.CallCommon) (Value, []Value) {
	args := make([]Value, 0, len(c.Args)+1)
	var fv Value
	if c.IsInvoke() {
		recv := ex.get(fr, c.Value).(IfaceV)
		if recv.t == nil {
			ex.rtPanic("nil pointer dereference", "method call on nil interface "+c.Method.Name())
		}
		if recv.t == sentinelType {
			fv = sentinelMethod{name: c.Method.Name(), obj: recv.v.(PtrV).obj}
		} else {
			m := ex.w.sh.prog.LookupMethod(recv.t, c.Method.Pkg(), c.Method.Name())
			if m == nil {
				ex.unsupported("method %s not found on %s", c.Method.Name(), recv.t)
			}
			fv = FuncV{fn: m}
		}
		args = append(args, recv.v)
	} else {
		fv = ex.get(fr, c.Value)
	}
	for _, a := range c.Args {
		args = append(args, ex.get(fr, a))
	}
	return fv, args
}

type sentinelMethod struct {
	name string
	obj  *Obj
}

func (ex *Exec) doCallInstr(fr *Frame, c *ssa.CallCommon) []Value {
	fv, args := ex.prepareCall(fr, c)
	return ex.doCall(fr, c, fv, args)
}

func (ex *Exec) doCall(fr *Frame, c *ssa.CallCommon, fv Value, args []Value) []Value {
	switch f := fv.(type) {
	case *ssa.Builtin:
		return ex.builtin(fr, f, c, args)
	case FuncV:
		if f.fn == nil {
			ex.rtPanic("nil pointer dereference", "call of nil func")
		}
		return ex.callFn(f.fn, args, f.free)
	case sentinelMethod:
		if f.name == "Error" {
			return []Value{StrV{opaque: true}}
		}
		ex.unsupported("method %s on sentinel error", f.name)
	}
	ex.unsupported("call of %T", fv)
	return nil
}

func (ex *Exec) spawnCall(fr *Frame, c *ssa.CallCommon, fv Value, args []Value) {
	switch f := fv.(type) {
	case FuncV:
		ex.spawn(f, args, c)
	default:
		ex.unsupported("go statement on %T", fv)
	}
}

func (ex *Exec) builtin(fr *Frame, b *ssa.Builtin, c *ssa.CallCommon, args []Value) []Value {
	ts := ex.ts
	switch b.Name() {
	case "len":
		switch v := args[0].(type) {
		case SliceV:
			return []Value{ex.cint(int64(v.len))}
		case StrV:
			if v.opaque {
				ex.unsupported("len of opaque string")
			}
			return []Value{ex.cint(int64(len(v.b)))}
		case MapV:
			if v.obj == nil {
				return []Value{ex.cint(0)}
			}
			return []Value{ex.cint(int64(ex.mapLen(v.obj)))}
		case ChanV:
			if v.obj == nil {
				return []Value{ex.cint(0)}
			}
			return []Value{ex.cint(int64(len(v.obj.buf)))}
		case ArrayV:
			return []Value{ex.cint(int64(len(v.e)))}
		case PtrV:
			at := c.Args[0].Type().Underlying().(*types.Pointer).Elem().Underlying().(*types.Array)
			return []Value{ex.cint(at.Len())}
		}
	case "cap":
		switch v := args[0].(type) {
		case SliceV:
			return []Value{ex.cint(int64(v.cap))}
		case ChanV:
			if v.obj == nil {
				return []Value{ex.cint(0)}
			}
			return []Value{ex.cint(int64(v.obj.capn))}
		case ArrayV:
			return []Value{ex.cint(int64(len(v.e)))}
		}
	case "append":
		s := args[0].(SliceV)
		et := c.Args[0].Type().Underlying().(*types.Slice).Elem()
		var add []Value
		n := 0
		switch a := args[1].(type) {
		case SliceV:
			n = a.len
			add = make([]Value, n*a.es)
			for k := range add {
				add[k] = a.obj.get(a.off + k)
			}
		case StrV:
			if a.opaque {
				ex.unsupported("append of opaque string")
			}
			n = len(a.b)
			add = make([]Value, n)
			for k := range add {
				add[k] = a.b[k]
			}
		}
		es := ex.slots(et)
		if n == 0 {
			return []Value{s}
		}
		if s.obj != nil && s.len+n <= s.cap {
			for k, v := range add {
				s.obj.set(s.off+s.len*es+k, v)
			}
			s.len += n
			return []Value{s}
		}
		newCap := s.len + n
		if newCap < 2*s.cap {
			newCap = 2 * s.cap
		}
		o := ex.makeSliceObj(et, newCap, "append")
		for k := 0; k < s.len*es; k++ {
			o.set(k, s.obj.get(s.off+k))
		}
		for k, v := range add {
			o.set(s.len*es+k, v)
		}
		return []Value{SliceV{obj: o, off: 0, len: s.len + n, cap: newCap, es: es}}
	case "copy":
		d := args[0].(SliceV)
		var src []Value
		switch a := args[1].(type) {
		case SliceV:
			n := a.len
			if d.len < n {
				n = d.len
			}
			src = make([]Value, n*a.es)
			for k := range src {
				src[k] = a.obj.get(a.off + k)
			}
			for k, v := range src {
				d.obj.set(d.off+k, v)
			}
			return []Value{ex.cint(int64(n))}
		case StrV:
			if a.opaque {
				ex.unsupported("copy of opaque string")
			}
			n := len(a.b)
			if d.len < n {
				n = d.len
			}
			for k := 0; k < n; k++ {
				d.obj.set(d.off+k, a.b[k])
			}
			return []Value{ex.cint(int64(n))}
		}
	case "delete":
		m := args[0].(MapV)
		if m.obj != nil {
			ex.mapDelete(m.obj, args[1])
		}
		return nil
	case "clear":
		switch v := args[0].(type) {
		case MapV:
			if v.obj != nil {
				for _, e := range v.obj.entries {
					e.deleted = true
				}
			}
		case SliceV:
			if v.obj != nil {
				et := c.Args[0].Type().Underlying().(*types.Slice).Elem()
				if v.obj.sparse != nil && v.off == 0 && v.len*v.es == v.obj.n {
					v.obj.sparse = map[int]Value{}
				} else {
					z := ex.zero(et)
					for k := 0; k < v.len; k++ {
						ex.storeVal(v.obj, v.off+k*v.es, et, z)
					}
				}
			}
		}
		return nil
	case "close":
		ex.schedPoint("close")
		ch := args[0].(ChanV)
		if ch.obj == nil {
			ex.rtPanic("close of nil channel", "")
		}
		if ch.obj.closed {
			ex.rtPanic("close of closed channel", "")
		}
		ch.obj.closed = true
		return nil
	case "recover":
		// only effective when called directly by a deferred function during panicking
		if n := len(ex.curDeferFrame); n > 0 {
			pf := ex.curDeferFrame[n-1]
			if pf.panicked != nil {
				p := pf.panicked
				pf.panicked = nil
				if p.val != nil {
					return []Value{p.val}
				}
				return []Value{IfaceV{t: runtimeErrorType, v: ex.strConst(p.kind + ": " + p.msg)}}
			}
		}
		return []Value{IfaceV{}}
	case "min", "max":
		r := args[0].(*Term)
		_, signed := typeWidth(c.Args[0].Type())
		for _, a := range args[1:] {
			t := a.(*Term)
			var lt *Term
			if signed {
				lt = ts.Cmp(OpSlt, t, r)
			} else {
				lt = ts.Cmp(OpUlt, t, r)
			}
			if b.Name() == "max" {
				lt = ts.BNot(ts.BOr(lt, ts.Eq(t, r)))
			}
			r = ts.Ite(lt, t, r)
		}
		return []Value{r}
	case "print", "println":
		return nil
	case "ssa:wrapnilchk":
		p := args[0].(PtrV)
		if p.obj == nil {
			ex.rtPanic("nil pointer dereference", "value method called via nil pointer")
		}
		return []Value{args[0]}
	}
	ex.unsupported("builtin %s on %T", b.Name(), args[0])
	return nil
}

var runtimeErrorType = types.NewNamed(types.NewTypeName(token.NoPos, nil, "verifRuntimeError", nil), types.Typ[types.String], nil)

// ---- channels ----

type sendItem struct {
	val   Value
	taken bool
}

func (o *Obj) recvReady() bool { return len(o.buf) > 0 || len(o.sendq) > 0 || o.closed }

func (ex *Exec) recvTake(o *Obj, et types.Type) (Value, bool) {
	if len(o.buf) > 0 {
		v := o.buf[0]
		o.buf = o.buf[1:]
		return v, true
	}
	if len(o.sendq) > 0 {
		it := o.sendq[0]
		o.sendq = o.sendq[1:]
		it.taken = true
		return it.val, true
	}
	return ex.zero(et), false
}

func (ex *Exec) chanSend(ch ChanV, v Value) {
	ex.schedPoint("send")
	if ch.obj == nil {
		ex.blockUntil(func() bool { return false })
	}
	o := ch.obj
	if o.closed {
		ex.rtPanic("send on closed channel", "")
	}
	if o.capn > 0 {
		ex.blockUntil(func() bool { return o.closed || len(o.buf) < o.capn })
		if o.closed {
			ex.rtPanic("send on closed channel", "")
		}
		o.buf = append(o.buf, v)
		return
	}
	it := &sendItem{val: v}
	o.sendq = append(o.sendq, it)
	ex.blockUntil(func() bool { return it.taken || o.closed })
	if !it.taken {
		for k, x := range o.sendq {
			if x == it {
				o.sendq = append(o.sendq[:k], o.sendq[k+1:]...)
				break
			}
		}
		ex.rtPanic("send on closed channel", "")
	}
}

func (ex *Exec) chanRecv(ch ChanV, et types.Type) (Value, bool) {
	ex.schedPoint("recv")
	if ch.obj == nil {
		ex.blockUntil(func() bool { return false })
	}
	o := ch.obj
	ex.blockUntil(o.recvReady)
	return ex.recvTake(o, et)
}

func (ex *Exec) selectInstr(fr *Frame, i *ssa.Select) Value {
	type st struct {
		ch  *Obj
		dir types.ChanDir
		val Value
		et  types.Type
	}
	ex.schedPoint("select")
	states := make([]st, len(i.States))
	for k, s := range i.States {
		ch := ex.get(fr, s.Chan).(ChanV)
		states[k] = st{ch: ch.obj, dir: s.Dir, et: s.Chan.Type().Underlying().(*types.Chan).Elem()}
		if s.Send != nil {
			states[k].val = ex.get(fr, s.Send)
		}
	}
	ready := func() []int {
		var r []int
		for k, s := range states {
			if s.ch == nil {
				continue
			}
			if s.dir == types.RecvOnly {
				if s.ch.recvReady() {
					r = append(r, k)
				}
			} else {
				if s.ch.closed || (s.ch.capn > 0 && len(s.ch.buf) < s.ch.capn) {
					r = append(r, k)
				}
				if s.ch.capn == 0 && !s.ch.closed {
					ex.unsupported("select with send on unbuffered channel")
				}
			}
		}
		return r
	}
	rd := ready()
	if len(rd) == 0 && i.Blocking {
		ex.blockUntil(func() bool { return len(ready()) > 0 })
		rd = ready()
	}
	// Fairness: a receive from a closed, drained channel is ready forever. The Go runtime picks among
	// ready cases at random, so every ready case is eventually taken; the executor explores each
	// order in which such cases can be taken once, instead of unboundedly many repetitions: a closed
	// case chosen at this select is not offered again until a case that is not closed-and-drained
	// has been chosen there.
	isClosedRecv := func(k int) bool {
		s := states[k]
		return s.dir == types.RecvOnly && s.ch != nil && s.ch.closed && len(s.ch.buf) == 0 && len(s.ch.sendq) == 0
	}
	g := ex.cur
	if g.selDone == nil {
		g.selDone = map[*ssa.Select]map[int]bool{}
	}
	if len(rd) > 1 {
		// closed-and-drained cases are offered in case order, one at a time (their relative order is
		// assumed not to matter: such a receive yields the zero value and ok == false)
		var filtered []int
		closedOffered := false
		for _, k := range rd {
			if isClosedRecv(k) {
				if g.selDone[i][k] || closedOffered {
					continue
				}
				closedOffered = true
			}
			filtered = append(filtered, k)
		}
		if len(filtered) > 0 {
			rd = filtered
		}
	}
	idx := -1
	if len(rd) == 1 {
		idx = rd[0]
	} else if len(rd) > 1 {
		vals := make([]int64, len(rd))
		for k, r := range rd {
			vals[k] = int64(r)
		}
		idx = int(ex.decideVals(vals))
	}
	if idx >= 0 {
		if isClosedRecv(idx) {
			if g.selDone[i] == nil {
				g.selDone[i] = map[int]bool{}
			}
			g.selDone[i][idx] = true
		} else {
			delete(g.selDone, i)
		}
	}
	if ex.schedOn && g.lastEv < len(ex.schedTrace) && ex.schedTrace[g.lastEv].G == g.id && ex.schedTrace[g.lastEv].Kind == "select" {
		sel := idx
		ex.schedTrace[g.lastEv].Sel = &sel
	}
	res := TupleV{ex.cint(int64(idx)), ex.ts.ff}
	var recvVals []Value
	for k, s := range states {
		if s.dir != types.RecvOnly {
			continue
		}
		v := ex.zero(s.et)
		if k == idx {
			var ok bool
			v, ok = ex.recvTake(s.ch, s.et)
			res[1] = ex.ts.Bool(ok)
		}
		recvVals = append(recvVals, v)
	}
	if idx >= 0 && states[idx].dir == types.SendOnly {
		s := states[idx]
		if s.ch.closed {
			ex.rtPanic("send on closed channel", "")
		}
		s.ch.buf = append(s.ch.buf, s.val)
	}
	return append(res, recvVals...)
}

var _ = strings.Join

var qlog = os.Getenv("VERIF_QLOG") != ""

type chainEnd struct {
	blk, prev *ssa.BasicBlock
}

// caseChain collapses `case a, b, c:` chains: consecutive blocks that only compare and branch to the
// same target are evaluated as one disjunction (the comparisons are pure and cannot panic).
func (ex *Exec) caseChain(fr *Frame, b *ssa.BasicBlock, c *Term) (*ssa.BasicBlock, chainEnd, *Term, bool) {
	target := b.Succs[0]
	if len(target.Instrs) > 0 {
		if _, isPhi := target.Instrs[0].(*ssa.Phi); isPhi {
			return nil, chainEnd{}, nil, false
		}
	}
	disj := c
	cur := b
	f := b.Succs[1]
	n := 0
	for {
		if f == target || len(f.Preds) != 1 || len(f.Instrs) != 2 {
			break
		}
		cmp, ok1 := f.Instrs[0].(*ssa.BinOp)
		iff, ok2 := f.Instrs[1].(*ssa.If)
		if !ok1 || !ok2 || iff.Cond != cmp || f.Succs[0] != target {
			break
		}
		switch cmp.Op {
		case token.EQL, token.NEQ, token.LSS, token.LEQ, token.GTR, token.GEQ:
		default:
			return nil, chainEnd{}, nil, false
		}
		x, okx := ex.get(fr, cmp.X).(*Term)
		y, oky := ex.get(fr, cmp.Y).(*Term)
		if !okx || !oky {
			break
		}
		v := ex.binop(cmp.Op, x, y, cmp.X.Type(), cmp.Y.Type()).(*Term)
		ex.set(fr, cmp, v)
		disj = ex.ts.BOr(disj, v)
		cur = f
		f = f.Succs[1]
		n++
	}
	if n == 0 {
		return nil, chainEnd{}, nil, false
	}
	return target, chainEnd{blk: f, prev: cur}, disj, true
}
