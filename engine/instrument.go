package main

// Source instrumentation for native replay of schedules (C13).
//
// The executor's schedule trace lists, in execution order, the visible operations of every
// goroutine: channel send / receive / select / close, go statements, socket Read / Write / Close and
// time.Sleep. To make the real build follow the same order, a copy of package service is generated
// from /repo's current tree in which every such operation is preceded by a call of vrtGate(kind)
// (defined by the harness runtime of that package); go statements and `defer close(ch)` go through
// generic helpers that keep Go's evaluation order. The copy is used through `go test -overlay`
// only; with no schedule loaded every gate is a no-op.

import (
	"bytes"
	"fmt"
	"go/ast"
	"go/parser"
	"go/printer"
	"go/token"
	"go/types"
	"os"
	"path/filepath"
	"strings"
	"sync"

	"golang.org/x/tools/go/packages"
)

var (
	instrOnce sync.Once
	instrOut  map[string][]byte
	instrErr  error
)

// instrumentedService returns file path -> instrumented source for package service.
func instrumentedService() (map[string][]byte, error) {
	instrOnce.Do(func() { instrOut, instrErr = instrumentPkg(repoMod + "service") })
	return instrOut, instrErr
}

func instrumentPkg(path string) (map[string][]byte, error) {
	cfg := &packages.Config{
		Mode: packages.NeedName | packages.NeedFiles | packages.NeedCompiledGoFiles | packages.NeedSyntax | packages.NeedTypes | packages.NeedTypesInfo | packages.NeedImports | packages.NeedDeps,
		Dir:  engineDir(),
		Env:  append(os.Environ(), "GOFLAGS=-mod=mod", "GOPROXY=off", "GOSUMDB=off", "GOTOOLCHAIN=local"),
	}
	pkgs, err := packages.Load(cfg, path)
	if err != nil {
		return nil, err
	}
	if len(pkgs) != 1 || len(pkgs[0].Errors) > 0 {
		return nil, fmt.Errorf("instrument: cannot load %s: %v", path, pkgs[0].Errors)
	}
	pkg := pkgs[0]
	out := map[string][]byte{}
	for i, f := range pkg.Syntax {
		name := pkg.CompiledGoFiles[i]
		if strings.HasPrefix(filepath.Base(name), "zz_verif_") {
			continue
		}
		in := &instrumenter{info: pkg.TypesInfo}
		in.file(f)
		if !in.changed {
			continue
		}
		var buf bytes.Buffer
		if err := printer.Fprint(&buf, pkg.Fset, f); err != nil {
			return nil, err
		}
		for _, im := range f.Imports {
			if im.Path.Value == `"time"` && im.Name == nil {
				// time.Sleep may have been the file's only use of the package
				buf.WriteString("\nvar _ time.Duration\n")
			}
		}
		out[name] = buf.Bytes()
	}
	return out, nil
}

type instrumenter struct {
	info    *types.Info
	changed bool
}

func (in *instrumenter) file(f *ast.File) {
	// collect every statement list first, then rewrite each in place
	var lists []*[]ast.Stmt
	ast.Inspect(f, func(n ast.Node) bool {
		switch x := n.(type) {
		case *ast.BlockStmt:
			lists = append(lists, &x.List)
		case *ast.CaseClause:
			lists = append(lists, &x.Body)
		case *ast.CommClause:
			lists = append(lists, &x.Body)
		}
		return true
	})
	for _, l := range lists {
		*l = in.stmts(*l)
	}
}

func gateStmt(kind string) ast.Stmt {
	if i := strings.Index(kind, "\x00"); i >= 0 {
		// socket operation: the gate is told which connection (expression text after the NUL)
		e, err := parser.ParseExpr(kind[i+1:])
		if err == nil {
			return &ast.ExprStmt{X: &ast.CallExpr{Fun: ast.NewIdent("vrtGateConn"), Args: []ast.Expr{&ast.BasicLit{Kind: token.STRING, Value: fmt.Sprintf("%q", kind[:i])}, e}}}
		}
		kind = kind[:i]
	}
	return &ast.ExprStmt{X: &ast.CallExpr{Fun: ast.NewIdent("vrtGate"), Args: []ast.Expr{&ast.BasicLit{Kind: token.STRING, Value: fmt.Sprintf("%q", kind)}}}}
}

func (in *instrumenter) stmts(list []ast.Stmt) []ast.Stmt {
	var out []ast.Stmt
	for _, s := range list {
		inner := s
		for {
			if l, ok := inner.(*ast.LabeledStmt); ok {
				inner = l.Stmt
				continue
			}
			break
		}
		switch x := inner.(type) {
		case *ast.GoStmt:
			if repl := in.goStmt(x); repl != nil {
				in.changed = true
				if inner == s {
					out = append(out, repl)
				} else {
					// keep the label chain, replace the innermost statement
					l := s.(*ast.LabeledStmt)
					for {
						if nl, ok := l.Stmt.(*ast.LabeledStmt); ok {
							l = nl
							continue
						}
						break
					}
					l.Stmt = repl
					out = append(out, s)
				}
				continue
			}
			out = append(out, gateStmt("go"), s)
			in.changed = true
			continue
		case *ast.DeferStmt:
			if id, ok := x.Call.Fun.(*ast.Ident); ok && id.Name == "close" && len(x.Call.Args) == 1 && in.isBuiltin(id) {
				x.Call.Fun = ast.NewIdent("vrtClose")
				in.changed = true
			}
			out = append(out, s)
			continue
		case *ast.RangeStmt:
			if t := in.info.TypeOf(x.X); t != nil {
				if _, ok := t.Underlying().(*types.Chan); ok {
					x.X = &ast.CallExpr{Fun: ast.NewIdent("vrtRecvAll"), Args: []ast.Expr{x.X}}
					in.changed = true
				}
			}
			out = append(out, s)
			continue
		}
		for _, k := range in.ownOps(inner) {
			out = append(out, gateStmt(k))
			in.changed = true
		}
		out = append(out, s)
	}
	return out
}

func (in *instrumenter) isBuiltin(id *ast.Ident) bool {
	_, ok := in.info.Uses[id].(*types.Builtin)
	return ok
}

// goStmt rewrites `go f(a, b)` into vrtGo2(f, a, b) when the shape allows it.
func (in *instrumenter) goStmt(g *ast.GoStmt) ast.Stmt {
	c := g.Call
	if c.Ellipsis.IsValid() || len(c.Args) > 3 {
		return nil
	}
	sig, ok := in.info.TypeOf(c.Fun).Underlying().(*types.Signature)
	if !ok || sig.Variadic() || sig.Results().Len() > 0 || sig.Params().Len() != len(c.Args) {
		return nil
	}
	if id, ok := c.Fun.(*ast.Ident); ok && in.isBuiltin(id) {
		return nil
	}
	args := append([]ast.Expr{c.Fun}, c.Args...)
	return &ast.ExprStmt{X: &ast.CallExpr{Fun: ast.NewIdent(fmt.Sprintf("vrtGo%d", len(c.Args))), Args: args}}
}

// ownOps lists the visible operations a statement performs itself (not those of nested blocks or
// function literals), in evaluation order.
func (in *instrumenter) ownOps(s ast.Stmt) []string {
	var ops []string
	var exprs []ast.Node
	switch x := s.(type) {
	case *ast.SelectStmt:
		// go/ssa lowers a select with one communication clause and no default to the bare operation
		if len(x.Body.List) == 1 {
			if cc, ok := x.Body.List[0].(*ast.CommClause); ok && cc.Comm != nil {
				if _, isSend := cc.Comm.(*ast.SendStmt); isSend {
					return []string{"send"}
				}
				return []string{"recv"}
			}
		}
		// the executor's choice among ready cases is enforced by masking the other channels with nil
		i := 0
		for _, c := range x.Body.List {
			cc, ok := c.(*ast.CommClause)
			if !ok || cc.Comm == nil {
				continue
			}
			mask := func(e ast.Expr) ast.Expr {
				return &ast.CallExpr{Fun: ast.NewIdent("vrtMask"), Args: []ast.Expr{&ast.BasicLit{Kind: token.INT, Value: fmt.Sprint(i)}, e}}
			}
			switch st := cc.Comm.(type) {
			case *ast.SendStmt:
				st.Chan = mask(st.Chan)
			case *ast.ExprStmt:
				if u, ok := st.X.(*ast.UnaryExpr); ok && u.Op == token.ARROW {
					u.X = mask(u.X)
				}
			case *ast.AssignStmt:
				if len(st.Rhs) == 1 {
					if u, ok := st.Rhs[0].(*ast.UnaryExpr); ok && u.Op == token.ARROW {
						u.X = mask(u.X)
					}
				}
			}
			i++
		}
		return []string{"select"}
	case *ast.SendStmt:
		exprs = []ast.Node{x.Chan, x.Value}
		defer func() {}()
		ops = in.exprOps(exprs)
		return append(ops, "send")
	case *ast.ExprStmt:
		exprs = []ast.Node{x.X}
	case *ast.AssignStmt:
		for _, e := range x.Rhs {
			exprs = append(exprs, e)
		}
		for _, e := range x.Lhs {
			exprs = append(exprs, e)
		}
	case *ast.ReturnStmt:
		for _, e := range x.Results {
			exprs = append(exprs, e)
		}
	case *ast.DeclStmt:
		exprs = []ast.Node{x.Decl}
	case *ast.IncDecStmt:
		exprs = []ast.Node{x.X}
	case *ast.IfStmt:
		if x.Init != nil {
			ops = append(ops, in.ownOps(x.Init)...)
		}
		exprs = []ast.Node{x.Cond}
	case *ast.SwitchStmt:
		if x.Init != nil {
			ops = append(ops, in.ownOps(x.Init)...)
		}
		if x.Tag != nil {
			exprs = []ast.Node{x.Tag}
		}
	case *ast.TypeSwitchStmt:
		if x.Init != nil {
			ops = append(ops, in.ownOps(x.Init)...)
		}
	case *ast.ForStmt:
		if x.Init != nil {
			ops = append(ops, in.ownOps(x.Init)...)
		}
	}
	return append(ops, in.exprOps(exprs)...)
}

func (in *instrumenter) exprOps(nodes []ast.Node) []string {
	var ops []string
	for _, n := range nodes {
		if n == nil {
			continue
		}
		// post-order: operands before the operation that uses them
		var walk func(n ast.Node)
		walk = func(n ast.Node) {
			switch x := n.(type) {
			case nil:
				return
			case *ast.FuncLit:
				return
			case *ast.UnaryExpr:
				walk(x.X)
				if x.Op == token.ARROW {
					ops = append(ops, "recv")
				}
				return
			case *ast.CallExpr:
				walk(x.Fun)
				for _, a := range x.Args {
					walk(a)
				}
				if k := in.callKind(x); k != "" {
					ops = append(ops, k)
				}
				return
			}
			ast.Inspect(n, func(c ast.Node) bool {
				if c == n || c == nil {
					return true
				}
				walk(c)
				return false
			})
		}
		walk(n)
	}
	return ops
}

// callKind classifies a call as a visible operation; time.Sleep is redirected to vrtSleep (which
// gates itself).
func (in *instrumenter) callKind(c *ast.CallExpr) string {
	switch f := c.Fun.(type) {
	case *ast.Ident:
		if f.Name == "close" && in.isBuiltin(f) {
			return "close"
		}
	case *ast.SelectorExpr:
		obj := in.info.Uses[f.Sel]
		fn, ok := obj.(*types.Func)
		if !ok {
			return ""
		}
		full := fn.FullName()
		switch full {
		case "time.Sleep":
			c.Fun = ast.NewIdent("vrtSleep")
			in.changed = true
			return ""
		case "(*net.TCPConn).Read", "(*net.conn).Read":
			if in.isTCPConn(f.X) {
				return "conn.Read" + "\x00" + types.ExprString(f.X)
			}
		case "(*net.TCPConn).Write", "(*net.conn).Write":
			if in.isTCPConn(f.X) {
				// the write goes through vrtConnWrite, which counts the bytes sent so that the harness's
				// look at the peer's side (vrt_ConnWritten) can wait for exactly those bytes to arrive
				c.Args = append([]ast.Expr{f.X}, c.Args...)
				c.Fun = ast.NewIdent("vrtConnWrite")
				in.changed = true
				return "conn.Write"
			}
		case "(*net.TCPConn).Close", "(*net.conn).Close":
			if in.isTCPConn(f.X) {
				return "conn.Close"
			}
		}
	}
	return ""
}

func (in *instrumenter) isTCPConn(e ast.Expr) bool {
	t := in.info.TypeOf(e)
	if t == nil {
		return false
	}
	return strings.HasSuffix(t.String(), "net.TCPConn")
}
