package main

// Harness primitives (vrt_*), intercepted by name.

import (
	"fmt"
	"go/types"

	"golang.org/x/tools/go/ssa"
)

var vrtStubs map[string]stubFn

func init() {
	vrtStubs = map[string]stubFn{
		"vrt_Byte":     vrtScalar(8),
		"vrt_U16":      vrtScalar(16),
		"vrt_U32":      vrtScalar(32),
		"vrt_U64":      vrtScalar(64),
		"vrt_Bool":     vrtBool,
		"vrt_Bytes":    vrtBytes,
		"vrt_BytesCap": vrtBytesCap,
		"vrt_String":   vrtString,
		"vrt_Choose":   vrtChoose,
		"vrt_Assume":   vrtAssume,
		"vrt_Assert":   vrtAssert,
		"vrt_Cover":    vrtCover,
		"vrt_Class":    vrtClass,
		"vrt_Panics":   vrtPanics,
		"vrt_Tier":     vrtTier,
		"vrt_And":      vrtAnd,
		"vrt_Or":       vrtOr,
		"vrt_Implies":  vrtImplies,
		"vrt_BytesEq":  vrtBytesEq,
		"vrt_StrEq":    vrtStrEq,
		"vrt_Yield":    vrtYield,
		"vrt_Quiesce":  vrtQuiesce,
		"vrt_Sched":    vrtSched,
		"vrt_Go":       vrtGo,
		"vrt_Wake":     vrtWake,
		"vrt_Observe":  vrtObserve,
		"vrt_Note":     stubNop,
		"vrt_Symbolic": func(ex *Exec, fn *ssa.Function, args []Value) []Value { return []Value{ex.ts.tt} },
		"vrt_FSLog":    vrtFSLog,
		"vrt_NewTCPConn": vrtNewTCPConn,
		"vrt_ConnWrites": vrtConnWrites,
		"vrt_ConnPushRead": vrtConnPushRead,
		"vrt_ConnStart":    stubNop,
		"vrt_ConnWritten":  vrtConnWritten,
		"vrt_ConnFailWrites": vrtConnFailWrites,
		"vrt_ConnLive":       func(ex *Exec, fn *ssa.Function, args []Value) []Value { connOf(ex, args[0]).live = true; return nil },
		"vrt_ConnEOF":        func(ex *Exec, fn *ssa.Function, args []Value) []Value { ex.schedPoint("eof"); connOf(ex, args[0]).eof = true; return nil },
		"vrt_IsOpaque":  vrtIsOpaque,
		"vrt_Fail":      vrtFail,
		"vrt_ClockFrozen": func(ex *Exec, fn *ssa.Function, args []Value) []Value { ex.clockFrozen = true; return nil },
		"vrt_DeepEqual": vrtDeepEqual,
	}
}

func (ex *Exec) label(v Value) string {
	s, ok := concreteStr(v.(StrV))
	if !ok {
		ex.end("internal", "vrt label must be a constant string")
	}
	return s
}

func (ex *Exec) fresh(label string, w uint8) *Term {
	ex.symSeq[label]++
	return ex.ts.Sym(w, fmt.Sprintf("%s#%d", label, ex.symSeq[label]))
}

func vrtScalar(w uint8) stubFn {
	return func(ex *Exec, fn *ssa.Function, args []Value) []Value {
		l := ex.label(args[0])
		t := ex.fresh(l, w)
		ex.inputs = append(ex.inputs, inputRec{Label: l, Kind: fmt.Sprintf("u%d", w), Terms: []*Term{t}})
		return []Value{t}
	}
}

func vrtBool(ex *Exec, fn *ssa.Function, args []Value) []Value {
	l := ex.label(args[0])
	t := ex.fresh(l, 0)
	ex.inputs = append(ex.inputs, inputRec{Label: l, Kind: "bool", Terms: []*Term{t}})
	return []Value{t}
}

func (ex *Exec) freshBytes(l string, n int) []*Term {
	b := make([]*Term, n)
	ex.symSeq[l]++
	k := ex.symSeq[l]
	for i := range b {
		b[i] = ex.ts.Sym(8, fmt.Sprintf("%s#%d[%d]", l, k, i))
	}
	return b
}

func vrtBytes(ex *Exec, fn *ssa.Function, args []Value) []Value {
	l := ex.label(args[0])
	n := int(int64(ex.concretize(args[1].(*Term), 4096, "vrt_Bytes length")))
	if n < 0 {
		ex.end("internal", "vrt_Bytes negative length")
	}
	b := ex.freshBytes(l, n)
	ex.inputs = append(ex.inputs, inputRec{Label: l, Kind: "bytes", Terms: b})
	return []Value{ex.newByteSlice(b, 0, "vrt_Bytes:"+l)}
}

func vrtBytesCap(ex *Exec, fn *ssa.Function, args []Value) []Value {
	l := ex.label(args[0])
	n := int(int64(ex.concretize(args[1].(*Term), 4096, "vrt_BytesCap length")))
	extra := int(int64(ex.concretize(args[2].(*Term), 4096, "vrt_BytesCap extra")))
	b := ex.freshBytes(l, n+extra)
	ex.inputs = append(ex.inputs, inputRec{Label: l, Kind: "bytescap", Terms: b, Conc: int64(n)})
	s := ex.newByteSlice(b, 0, "vrt_BytesCap:"+l)
	s.len = n
	return []Value{s}
}

func vrtString(ex *Exec, fn *ssa.Function, args []Value) []Value {
	l := ex.label(args[0])
	n := int(int64(ex.concretize(args[1].(*Term), 4096, "vrt_String length")))
	b := ex.freshBytes(l, n)
	ex.inputs = append(ex.inputs, inputRec{Label: l, Kind: "string", Terms: b})
	return []Value{StrV{b: b}}
}

func vrtChoose(ex *Exec, fn *ssa.Function, args []Value) []Value {
	l := ex.label(args[0])
	n := int(int64(ex.concretize(args[1].(*Term), 4096, "vrt_Choose n")))
	if n <= 0 {
		ex.end("assumed", "empty choice")
	}
	vals := make([]int64, n)
	for i := range vals {
		vals[i] = int64(i)
	}
	v := ex.decideVals(vals)
	ex.inputs = append(ex.inputs, inputRec{Label: l, Kind: "choose", Conc: v})
	return []Value{ex.cint(v)}
}

func vrtAssume(ex *Exec, fn *ssa.Function, args []Value) []Value {
	ex.assume(args[0].(*Term))
	return nil
}

func vrtAssert(ex *Exec, fn *ssa.Function, args []Value) []Value {
	c := args[0].(*Term)
	ex.asserts++
	if !c.IsConst() && ex.frontier() && !ex.inMerge {
		if _, dec := ex.quickDecide(c); !dec {
			sh := ex.w.sh
			if (c.h1^uint64(sh.seed))%8 == 0 {
				sh.mu.Lock()
				want := len(sh.xchecks) < 600
				sh.mu.Unlock()
				if want {
					nc := ex.ts.BNot(c)
					spc, snc := ex.sliced(ex.pc, nc)
					r := ex.w.solver.Check(spc, snc)
					x := xcheck{Script: Standalone(spc, snc), Expect: r, Decider: sh.solverKind}
					sh.mu.Lock()
					sh.xchecks = append(sh.xchecks, x)
					sh.mu.Unlock()
				}
			}
		}
	}
	if !ex.branch(c) {
		ex.reportViolation("assert", ex.label(args[1]), "")
	}
	return nil
}

func vrtFail(ex *Exec, fn *ssa.Function, args []Value) []Value {
	ex.reportViolation("assert", ex.label(args[0]), "")
	return nil
}

func vrtCover(ex *Exec, fn *ssa.Function, args []Value) []Value {
	l := ex.label(args[0])
	c := args[1].(*Term)
	if c.IsTrue() {
		ex.covers[l] = true
		return nil
	}
	if c.IsFalse() || ex.w.sh.coverSeen(l) {
		return nil
	}
	if ex.solve(c) == Sat {
		ex.covers[l] = true
	}
	return nil
}

func vrtClass(ex *Exec, fn *ssa.Function, args []Value) []Value {
	ex.classes[ex.label(args[0])] = args[1].(*Term)
	return nil
}

func vrtTier(ex *Exec, fn *ssa.Function, args []Value) []Value {
	return []Value{ex.cint(int64(ex.w.sh.tier))}
}

func vrtAnd(ex *Exec, fn *ssa.Function, args []Value) []Value {
	return []Value{ex.ts.BAnd(args[0].(*Term), args[1].(*Term))}
}
func vrtOr(ex *Exec, fn *ssa.Function, args []Value) []Value {
	return []Value{ex.ts.BOr(args[0].(*Term), args[1].(*Term))}
}
func vrtImplies(ex *Exec, fn *ssa.Function, args []Value) []Value {
	return []Value{ex.ts.Implies(args[0].(*Term), args[1].(*Term))}
}
func vrtBytesEq(ex *Exec, fn *ssa.Function, args []Value) []Value {
	return stubBytesEqual(ex, fn, args)
}
func vrtStrEq(ex *Exec, fn *ssa.Function, args []Value) []Value {
	return []Value{ex.strEq(args[0].(StrV), args[1].(StrV))}
}
func vrtIsOpaque(ex *Exec, fn *ssa.Function, args []Value) []Value {
	return []Value{ex.ts.Bool(args[0].(StrV).opaque)}
}

// vrt_Panics(f) runs f and reports whether it panicked (the panic is swallowed).
func vrtPanics(ex *Exec, fn *ssa.Function, args []Value) []Value {
	var gp *goPanic
	func() {
		defer func() {
			if r := recover(); r != nil {
				if p, ok := r.(*goPanic); ok {
					gp = p
					return
				}
				panic(r)
			}
		}()
		ex.callValue(args[0], nil, nil)
	}()
	if gp != nil {
		ex.lastPanic = gp
	}
	return []Value{ex.ts.Bool(gp != nil)}
}

func vrtYield(ex *Exec, fn *ssa.Function, args []Value) []Value {
	ex.schedPoint("yield")
	g := ex.cur
	g.yielding = true
	ex.reschedule()
	g.yielding = false
	ex.traceResume(g)
	return nil
}

// vrt_Quiesce(): the caller goes on only when no other goroutine can run (never earlier, whatever
// the schedule deviations).
func vrtQuiesce(ex *Exec, fn *ssa.Function, args []Value) []Value {
	ex.schedPoint("quiesce")
	g := ex.cur
	g.quiescing = true
	if ex.schedOn && g.lastEv < len(ex.schedTrace) {
		ex.schedTrace[g.lastEv].Blocks = true
	}
	ex.reschedule()
	g.quiescing = false
	ex.traceResume(g)
	return nil
}

// vrt_Sched(k): schedule mode. From here on every visible operation (channel operation, close, go
// statement, socket operation, sleep, harness environment action) is a point at which another
// runnable goroutine may run first, and every blocking point may pick any runnable goroutine; at
// most k such deviations from the default cooperative schedule per path.
func vrtSched(ex *Exec, fn *ssa.Function, args []Value) []Value {
	k := args[0].(*Term)
	if !k.IsConst() {
		ex.unsupported("vrt_Sched with a symbolic bound")
	}
	ex.schedOn = true
	ex.schedBudget = int(k.k)
	if ex.schedBudget > ex.schedMax {
		ex.schedMax = ex.schedBudget
	}
	return nil
}

// vrt_Go(f): go f() with a goroutine identity the native replay can reproduce.
func vrtGo(ex *Exec, fn *ssa.Function, args []Value) []Value {
	ex.spawn(args[0], nil, nil)
	return nil
}

func vrtWake(ex *Exec, fn *ssa.Function, args []Value) []Value {
	ex.schedPoint("wake")
	for _, g := range ex.gs {
		g.sleeping = false
	}
	return nil
}

func vrtObserve(ex *Exec, fn *ssa.Function, args []Value) []Value {
	l := ex.label(args[0])
	var ts []*Term
	switch v := args[1].(type) {
	case SliceV:
		if v.obj != nil {
			ts = ex.sliceBytes(v)
		}
	case StrV:
		if v.opaque {
			return nil
		}
		ts = v.b
	case *Term:
		ts = []*Term{v}
	case IfaceV:
		switch x := v.v.(type) {
		case *Term:
			ts = []*Term{x}
		case StrV:
			if x.opaque {
				return nil
			}
			ts = x.b
		case SliceV:
			if x.obj != nil {
				ts = ex.sliceBytes(x)
			}
		}
	}
	ex.observe = append(ex.observe, obsRec{Label: l, Terms: ts})
	return nil
}

// vrt_FSLog(i) returns the path of the i-th recorded file-system call ("" beyond the end),
// and vrt_FSLog(-1) the count as a decimal string.
func vrtFSLog(ex *Exec, fn *ssa.Function, args []Value) []Value {
	i := int(int64(ex.concretize(args[0].(*Term), 64, "fslog index")))
	var ops, paths []StrV
	for _, r := range ex.fsLog {
		ops = append(ops, ex.strConst(r.Op))
		paths = append(paths, r.Path)
	}
	if i < 0 || i >= len(paths) {
		return []Value{StrV{}, StrV{}}
	}
	return []Value{ops[i], paths[i]}
}

// ---- scripted TCP connection ----

type connScript struct {
	reads  []Value // each a SliceV chunk, or an IfaceV error
	pos    int
	writes []SliceV
	closed bool
	failWrites bool
	live   bool // Read blocks when the script is exhausted (until more data, EOF or Close)
	eof    bool
}

// vrt_NewTCPConn() *net.TCPConn : a connection object whose Read/Write/Close are scripted.
func vrtNewTCPConn(ex *Exec, fn *ssa.Function, args []Value) []Value {
	t := fn.Signature.Results().At(0).Type().(*types.Pointer).Elem()
	o := ex.allocObj(t, "tcpconn")
	o.tag = &connScript{}
	return []Value{PtrV{obj: o}}
}

func connOf(ex *Exec, v Value) *connScript {
	p, ok := v.(PtrV)
	if !ok || p.obj == nil {
		ex.rtPanic("nil pointer dereference", "net conn")
	}
	cs, ok := p.obj.tag.(*connScript)
	if !ok {
		ex.unsupported("net connection without script")
	}
	return cs
}

func stubTCPRead(ex *Exec, fn *ssa.Function, args []Value) []Value {
	ex.schedPoint("conn.Read")
	cs := connOf(ex, args[0])
	buf := args[1].(SliceV)
	if cs.live {
		ex.blockUntil(func() bool { return cs.closed || cs.eof || cs.pos < len(cs.reads) })
	}
	if cs.closed {
		return []Value{ex.cint(0), ex.globalErr("net.ErrClosed")}
	}
	if cs.pos >= len(cs.reads) {
		return []Value{ex.cint(0), ex.globalErr("io.EOF")}
	}
	r := cs.reads[cs.pos]
	switch x := r.(type) {
	case SliceV:
		n := x.len
		if n > buf.len {
			// deliver the rest in the next read
			n = buf.len
			cs.reads[cs.pos] = SliceV{obj: x.obj, off: x.off + n, len: x.len - n, cap: x.cap - n, es: 1}
		} else {
			cs.pos++
		}
		for k := 0; k < n; k++ {
			buf.obj.set(buf.off+k, x.obj.get(x.off+k))
		}
		return []Value{ex.cint(int64(n)), IfaceV{}}
	case IfaceV:
		cs.pos++
		return []Value{ex.cint(0), x}
	}
	ex.end("internal", "bad conn script entry")
	return nil
}

func stubTCPWrite(ex *Exec, fn *ssa.Function, args []Value) []Value {
	ex.schedPoint("conn.Write")
	cs := connOf(ex, args[0])
	b := args[1].(SliceV)
	if cs.closed || cs.failWrites {
		return []Value{ex.cint(0), ex.globalErr("net.ErrClosed")}
	}
	var snap SliceV
	if b.obj != nil {
		snap = ex.newByteSlice(ex.sliceBytes(b), 0, "conn.write")
	}
	cs.writes = append(cs.writes, snap)
	return []Value{ex.cint(int64(b.len)), IfaceV{}}
}

func stubTCPClose(ex *Exec, fn *ssa.Function, args []Value) []Value {
	ex.schedPoint("conn.Close")
	cs := connOf(ex, args[0])
	cs.closed = true
	return []Value{IfaceV{}}
}

func (ex *Exec) globalErr(name string) IfaceV {
	// name like "io.EOF": look the global up and load it
	var pkg, id string
	for i := len(name) - 1; i >= 0; i-- {
		if name[i] == '.' {
			pkg, id = name[:i], name[i+1:]
			break
		}
	}
	p := ex.w.sh.prog.ImportedPackage(pkg)
	if p == nil {
		return ex.sentinel(name)
	}
	g, ok := p.Members[id].(*ssa.Global)
	if !ok {
		return ex.sentinel(name)
	}
	o := ex.globalObj(g)
	v := o.get(0)
	if iv, ok := v.(IfaceV); ok {
		return iv
	}
	return IfaceV{}
}

// vrt_ConnWrites(conn) [][]byte
func vrtConnWrites(ex *Exec, fn *ssa.Function, args []Value) []Value {
	cs := connOf(ex, args[0])
	o := ex.newObj(len(cs.writes), "connwrites")
	for i, w := range cs.writes {
		o.set(i, w)
	}
	return []Value{SliceV{obj: o, len: len(cs.writes), cap: len(cs.writes), es: 1}}
}

func vrtDeepEqual(ex *Exec, fn *ssa.Function, args []Value) []Value {
	a, b := args[0].(IfaceV), args[1].(IfaceV)
	if a.t == nil || b.t == nil {
		return []Value{ex.ts.Bool(a.t == nil && b.t == nil)}
	}
	if !types.Identical(a.t, b.t) {
		return []Value{ex.ts.ff}
	}
	return []Value{ex.deepEq(a.v, b.v, a.t, 0)}
}

// vrt_ConnPushRead(conn, data): the next Read on conn returns data (then EOF when the script ends).
func vrtConnPushRead(ex *Exec, fn *ssa.Function, args []Value) []Value {
	ex.schedPoint("push")
	cs := connOf(ex, args[0])
	b := args[1].(SliceV)
	var snap SliceV
	if b.obj != nil {
		snap = ex.newByteSlice(ex.sliceBytes(b), 0, "conn.script")
	} else {
		snap = ex.newByteSlice(nil, 0, "conn.script")
	}
	cs.reads = append(cs.reads, snap)
	return nil
}

// vrt_ConnWritten(conn) []byte: everything written to conn so far, concatenated.
func vrtConnWritten(ex *Exec, fn *ssa.Function, args []Value) []Value {
	ex.schedPoint("observe") // reads what other goroutines have written to the socket
	cs := connOf(ex, args[0])
	var all []*Term
	for _, w := range cs.writes {
		if w.obj != nil {
			all = append(all, ex.sliceBytes(w)...)
		}
	}
	return []Value{ex.newByteSlice(all, 0, "conn.written")}
}

func vrtConnFailWrites(ex *Exec, fn *ssa.Function, args []Value) []Value {
	ex.schedPoint("failwrites")
	connOf(ex, args[0]).failWrites = true
	return nil
}
