package main

// Driver tables derived from /repo's current source (syntactically, with go/parser) and injected
// into the harness overlay, so that a message type added to or removed from protocol/model is
// reflected in the checks without editing a harness.

import (
	"regexp"
	"fmt"
	"go/ast"
	"go/parser"
	"go/token"
	"os"
	"path/filepath"
	"sort"
	"strings"
)

type modelType struct {
	Name                         string
	HasString, HasEncode, HasExt bool
	DialectPath                  string
}

func scanModelTypes(dir string) ([]modelType, error) {
	fset := token.NewFileSet()
	pkgs, err := parser.ParseDir(fset, dir, func(fi os.FileInfo) bool { return !strings.HasSuffix(fi.Name(), "_test.go") && !strings.HasPrefix(fi.Name(), "zz_verif") }, 0)
	if err != nil {
		return nil, err
	}
	structs := map[string]*ast.StructType{}
	type meth struct{ parse, ext, str, enc bool }
	methods := map[string]*meth{}
	for _, p := range pkgs {
		for _, f := range p.Files {
			for _, d := range f.Decls {
				switch x := d.(type) {
				case *ast.GenDecl:
					for _, s := range x.Specs {
						if ts, ok := s.(*ast.TypeSpec); ok {
							if st, ok := ts.Type.(*ast.StructType); ok {
								structs[ts.Name.Name] = st
							}
						}
					}
				case *ast.FuncDecl:
					if x.Recv == nil || len(x.Recv.List) != 1 {
						continue
					}
					rt := x.Recv.List[0].Type
					if se, ok := rt.(*ast.StarExpr); ok {
						rt = se.X
					}
					id, ok := rt.(*ast.Ident)
					if !ok {
						continue
					}
					m := methods[id.Name]
					if m == nil {
						m = &meth{}
						methods[id.Name] = m
					}
					np := x.Type.Params.NumFields()
					switch x.Name.Name {
					case "Parse":
						if np == 1 {
							m.parse = true
						} else if np == 2 {
							m.ext = true
						}
					case "String":
						m.str = np == 0
					case "Encode":
						m.enc = np == 0
					}
				}
			}
		}
	}
	var findDialect func(name string, depth int) string
	findDialect = func(name string, depth int) string {
		st := structs[name]
		if st == nil || depth > 4 {
			return ""
		}
		for _, f := range st.Fields.List {
			tn := ""
			switch t := f.Type.(type) {
			case *ast.Ident:
				tn = t.Name
			case *ast.SelectorExpr:
				tn = t.Sel.Name
				if tn == "ActiveSafetyType" {
					if len(f.Names) == 0 {
						return ".ActiveSafetyType"
					}
					return "." + f.Names[0].Name
				}
				continue
			}
			if tn == "" {
				continue
			}
			if sub := findDialect(tn, depth+1); sub != "" {
				fn := tn
				if len(f.Names) > 0 {
					fn = f.Names[0].Name
				}
				return "." + fn + sub
			}
		}
		return ""
	}
	var out []modelType
	for name, m := range methods {
		if name == "BaseHandle" || !(m.parse || m.ext) {
			continue
		}
		out = append(out, modelType{Name: name, HasString: m.str, HasEncode: m.enc, HasExt: m.ext && !m.parse, DialectPath: findDialect(name, 0)})
	}
	sort.Slice(out, func(i, j int) bool { return out[i].Name < out[j].Name })
	return out, nil
}

func genModelTable() ([]byte, error) {
	types, err := scanModelTypes("/repo/protocol/model")
	if err != nil {
		return nil, err
	}
	var sb strings.Builder
	sb.WriteString("//go:build verif\n\npackage model\n\n// Generated from /repo/protocol/model by the check driver on every run. Do not edit.\n\n")
	sb.WriteString("import (\n\t\"github.com/cuteLittleDevil/go-jt808/protocol/jt808\"\n\t\"github.com/cuteLittleDevil/go-jt808/shared/consts\"\n)\n\n")
	sb.WriteString("type vrtMsg interface{ Parse(*jt808.JTMessage) error }\n")
	sb.WriteString("type vrtExt interface{ Parse(id uint8, content []byte) (AdditionContent, bool) }\n\n")
	sb.WriteString("type vrtTypeInfo struct {\n\tName string\n\tNew func(d consts.ActiveSafetyType) vrtMsg\n\tDialect bool\n}\n\n")
	sb.WriteString("var vrtModelTypes = []vrtTypeInfo{\n")
	for _, t := range types {
		if t.HasExt {
			continue
		}
		if t.DialectPath != "" {
			fmt.Fprintf(&sb, "\t{%q, func(d consts.ActiveSafetyType) vrtMsg { v := &%s{}; v%s = d; return v }, true},\n", t.Name, t.Name, t.DialectPath)
		} else {
			fmt.Fprintf(&sb, "\t{%q, func(d consts.ActiveSafetyType) vrtMsg { return &%s{} }, false},\n", t.Name, t.Name)
		}
	}
	sb.WriteString("}\n\ntype vrtExtInfo struct {\n\tName string\n\tNew func() vrtExt\n}\n\nvar vrtExtTypes = []vrtExtInfo{\n")
	for _, t := range types {
		if t.HasExt {
			fmt.Fprintf(&sb, "\t{%q, func() vrtExt { return &%s{} }},\n", t.Name, t.Name)
		}
	}
	sb.WriteString("}\n")
	return []byte(sb.String()), nil
}

func addGenerated(ov map[string][]byte) error {
	if _, err := os.Stat(filepath.Join(harnessRoot(), "protocol", "model")); err == nil {
		data, err := genModelTable()
		if err != nil {
			return err
		}
		ov["/repo/protocol/model/zz_verif_gen_types.go"] = data
		ov["/repo/protocol/model/zz_verif_gen_vectors.go"] = genVectors()
	}
	return nil
}

var hexVec = regexp.MustCompile(`"((?:7[eE]|3031636|2031636)[0-9a-fA-F]{8,})"`)

// genVectors collects the hex inputs of the repository's own tests (frames and RTP packets) so that
// the selftest can push them through the executor and through the native build and compare.
func genVectors() []byte {
	seen := map[string]bool{}
	var frames, rtp []string
	for _, f := range []string{"/repo/protocol/jt808/jt808_test.go", "/repo/protocol/model/parse_test.go", "/repo/protocol/model/reply_test.go", "/repo/protocol/jt1078/jt1078_test.go"} {
		data, err := os.ReadFile(f)
		if err != nil {
			continue
		}
		for _, m := range hexVec.FindAllStringSubmatch(string(data), -1) {
			v := strings.ToLower(m[1])
			if seen[v] || len(v)%2 != 0 || len(v) > 1400 {
				continue
			}
			seen[v] = true
			if strings.HasPrefix(v, "7e") {
				frames = append(frames, v)
			} else {
				rtp = append(rtp, v)
			}
		}
	}
	sort.Strings(frames)
	sort.Strings(rtp)
	var sb strings.Builder
	sb.WriteString("//go:build verif\n\npackage model\n\n// Generated from the repository's own test files on every run. Do not edit.\n\nvar vrtFrameVectors = []string{\n")
	for _, v := range frames {
		fmt.Fprintf(&sb, "\t%q,\n", v)
	}
	sb.WriteString("}\n\nvar vrtRTPVectors = []string{\n")
	for _, v := range rtp {
		fmt.Fprintf(&sb, "\t%q,\n", v)
	}
	sb.WriteString("}\n")
	return []byte(sb.String())
}
