package main

import (
	"fmt"
	"go/types"
	"os"
	"sort"
	"strings"
	"sync"
	"time"

	"golang.org/x/tools/go/packages"
	"golang.org/x/tools/go/ssa"
	"golang.org/x/tools/go/ssa/ssautil"
)

const repoMod = "github.com/cuteLittleDevil/go-jt808/"

type knownFinding struct {
	Property    string `json:"property"`
	Harness     string `json:"harness"`
	Site        string `json:"site"`
	Class       string `json:"class"`
	Description string `json:"description"`
	Status      string `json:"status"` // "known" or "fixed"
	Commit      string `json:"commit,omitempty"`
}

type candidate struct {
	Harness  string
	Kind     string
	Site     string
	Msg      string
	Known    *knownFinding
	Inputs   []inputJSON
	Choices  []int64
	Outcome  string // after native replay: "reproduced", "not-reproduced", ""
	Dir      string
	Key      string
	Observed []obsJSON
	Sched    []schedEv
}

type inputJSON struct {
	Label string `json:"label"`
	Kind  string `json:"kind"`
	Hex   string `json:"hex,omitempty"`
	Val   uint64 `json:"val"`
	N     int64  `json:"n,omitempty"`
}

type obsJSON struct {
	Label string `json:"label"`
	Hex   string `json:"hex"`
}

type Shared struct {
	prog     *ssa.Program
	pkgs     []*packages.Package
	initPkgs map[string]bool
	tier     int
	unwind   int
	maxSteps int
	mapRotate int
	seed     int64
	solverKind string
	timeoutMS int

	known []knownFinding

	mu        sync.Mutex
	covers    map[string]bool
	outside   map[string]int
	work      [][]int64
	inflight  int
	cond      *sync.Cond
	stats     runStats
	cands     []*candidate
	candKeys  map[string]int
	knownSeen map[string]*candidate
	witnesses []*candidate
	xchecks   []xcheck
	funcs     map[string]bool
	inconcl   map[string]int
	harness   string
	deadline  time.Time
	stop      bool
	noMerge   bool
	witnessAll bool
	byFirst   map[int64]int
}

type xcheck struct {
	Script  string
	Expect  SatResult
	Decider string
}

type runStats struct {
	paths, done, assumed, violations, unsupported, unwound, deadlock, internal int
	branches, splits, merges, asserts                                          int
	queries                                                                    int
	solverTime                                                                 float64
	unknown                                                                    int
	steps                                                                      int64
	maxDepth                                                                   int
	// schedule mode
	schedPaths  int    // paths run in schedule mode
	schedEvents int64  // visible operations recorded on them
	schedByDev  [4]int // paths by number of deviations from the default schedule (3 = 3 or more)
	schedBound  int    // largest deviation bound a harness asked for
}

func (sh *Shared) coverSeen(l string) bool {
	sh.mu.Lock()
	defer sh.mu.Unlock()
	return sh.covers[l]
}

func (sh *Shared) noteOutside(s string) {
	sh.mu.Lock()
	sh.outside[s]++
	sh.mu.Unlock()
}

type Worker struct {
	sh      *Shared
	solver  *Solver
	fnInfos map[*ssa.Function]*fnInfo
	cfgs    map[*ssa.Function]*fnCFG
	regions map[*ssa.BasicBlock]*regionInfo
	id      int
	paths   int
	pathWall float64
}

func (w *Worker) noteUnknown(what string) {
	w.sh.mu.Lock()
	w.sh.stats.unknown++
	w.sh.inconcl["solver unknown/timeout: "+what]++
	w.sh.mu.Unlock()
}

// ---- loading ----

func loadProgram(overlay map[string][]byte, patterns []string) (*ssa.Program, []*packages.Package, error) {
	cfg := &packages.Config{
		Mode:       packages.LoadAllSyntax,
		Dir:        engineDir(),
		BuildFlags: []string{"-tags=verif"},
		Overlay:    overlay,
		Env:        append(os.Environ(), "GOFLAGS=-mod=mod", "GOPROXY=off", "GOSUMDB=off", "GOTOOLCHAIN=local"),
	}
	pkgs, err := packages.Load(cfg, patterns...)
	if err != nil {
		return nil, nil, err
	}
	nerr := 0
	packages.Visit(pkgs, nil, func(p *packages.Package) {
		for _, e := range p.Errors {
			fmt.Fprintln(os.Stderr, "LOAD-ERROR:", e)
			nerr++
		}
	})
	if nerr > 0 {
		return nil, nil, fmt.Errorf("%d load errors", nerr)
	}
	prog, _ := ssautil.AllPackages(pkgs, ssa.InstantiateGenerics)
	prog.Build()
	return prog, pkgs, nil
}

func engineDir() string {
	if d := os.Getenv("VERIF_ENGINE_DIR"); d != "" {
		return d
	}
	return "/verif/engine"
}

// ---- exploring one harness ----

func (sh *Shared) pop() ([]int64, bool) {
	sh.mu.Lock()
	defer sh.mu.Unlock()
	for {
		if sh.stop {
			return nil, false
		}
		if n := len(sh.work); n > 0 {
			p := sh.work[n-1]
			sh.work = sh.work[:n-1]
			sh.inflight++
			return p, true
		}
		if sh.inflight == 0 {
			sh.cond.Broadcast()
			return nil, false
		}
		sh.cond.Wait()
	}
}

func (sh *Shared) finish(alts [][]int64) {
	sh.mu.Lock()
	// push in reverse so that the first alternative is explored first (DFS)
	for i := len(alts) - 1; i >= 0; i-- {
		sh.work = append(sh.work, alts[i])
	}
	sh.inflight--
	sh.cond.Broadcast()
	sh.mu.Unlock()
}

func (w *Worker) loop(fn *ssa.Function) {
	for {
		prefix, ok := w.sh.pop()
		if !ok {
			return
		}
		if !w.sh.deadline.IsZero() && time.Now().After(w.sh.deadline) {
			w.sh.mu.Lock()
			w.sh.inconcl["time budget exhausted before all paths were explored"]++
			w.sh.stop = true
			w.sh.inflight--
			w.sh.cond.Broadcast()
			w.sh.mu.Unlock()
			return
		}
		tp := time.Now()
		alts := w.runPath(fn, prefix)
		w.pathWall += time.Since(tp).Seconds()
		w.sh.finish(alts)
		w.paths++
		if w.paths%3000 == 0 {
			// keep the solver process small
			w.restartSolver()
		}
	}
}

func (w *Worker) restartSolver() {
	w.sh.mu.Lock()
	w.sh.stats.queries += w.solver.queries
	w.sh.stats.solverTime += w.solver.timeS
	w.sh.mu.Unlock()
	w.solver.Close()
	s, err := NewSolver(w.sh.solverKind, w.sh.timeoutMS)
	if err != nil {
		panic(err)
	}
	w.solver = s
}

func (w *Worker) runPath(fn *ssa.Function, prefix []int64) (alts [][]int64) {
	sh := w.sh
	ex := &Exec{w: w, ts: NewTermStore(), prefix: prefix,
		slotCache: map[types.Type]int{}, globals: map[*ssa.Global]*Obj{}, sentinels: map[string]IfaceV{},
		covers: map[string]bool{}, classes: map[string]*Term{}, symSeq: map[string]int{},
		funcs: map[string]bool{}, maxStep: sh.maxSteps, vsets: map[string]*byteSet{}, unaryBy: map[string][]*Term{}, pcSet: map[*Term]bool{}, entangled: map[string]bool{}}
	main := &G{id: 0, resume: make(chan bool, 1)}
	ex.gs = []*G{main}
	ex.cur, ex.main = main, main
	outcome, detail := "done", ""
	func() {
		defer func() {
			r := recover()
			switch e := r.(type) {
			case nil:
			case pathEnd:
				outcome, detail = e.outcome, e.detail
			case killed:
				if ex.pendingEnd != nil {
					outcome, detail = ex.pendingEnd.outcome, ex.pendingEnd.detail
				} else {
					outcome, detail = "deadlock", ex.inconcl
				}
			case *goPanic:
				outcome, detail = "crash", ""
				ex.crash = e
			default:
				outcome, detail = "internal", fmt.Sprintf("%v @ %v", r, tail(ex.panicStack, 5))
				if os.Getenv("VERIF_DEBUG") != "" {
					panic(r)
				}
			}
		}()
		if init := fn.Pkg.Func("init"); init != nil {
			ex.callFn(init, nil, nil)
		}
		ex.callFn(fn, nil, nil)
	}()
	// stop remaining goroutines
	ex.dead = true
	// (the resume channels are buffered, so a goroutine that is between handing over and parking
	// still finds the token; its done flag is never set from here - a goroutine that saw done == true
	// after handing over would skip parking and keep running next to the worker)
	for _, g := range ex.gs[1:] {
		if !g.done {
			select {
			case g.resume <- false:
			default:
			}
		}
	}
	if outcome == "crash" && ex.crash != nil {
		// an uncaught panic is a violation of the harness's implicit "no crash" obligation
		func() {
			defer func() { recover() }()
			ex.reportViolation("panic", ex.crash.site+": "+ex.crash.kind, ex.crash.describe())
		}()
		outcome = "violation"
	}
	if outcome == "deadlock" {
		func() {
			defer func() { recover() }()
			ex.reportViolation("deadlock", "deadlock", detail)
		}()
		outcome = "violation"
	}
	if outcome == "violation" && ex.viol != nil {
		w.handleViolation(ex)
	}
	sh.mu.Lock()
	st := &sh.stats
	st.paths++
	st.branches += ex.branches
	st.splits += ex.splits
	st.merges += ex.merges
	st.asserts += ex.asserts
	st.steps += int64(ex.steps)
	if len(ex.decisions) > st.maxDepth {
		st.maxDepth = len(ex.decisions)
	}
	if ex.schedOn {
		st.schedPaths++
		st.schedEvents += int64(len(ex.schedTrace))
		d := ex.schedDev
		if d > 3 {
			d = 3
		}
		st.schedByDev[d]++
		if ex.schedMax > st.schedBound {
			st.schedBound = ex.schedMax
		}
	}
	switch outcome {
	case "done":
		st.done++
	case "assumed":
		st.assumed++
	case "violation":
		st.violations++
	case "unsupported":
		st.unsupported++
		sh.inconcl["unsupported: "+detail]++
	case "unwind":
		st.unwound++
		sh.inconcl["unwinding: "+detail]++
	default:
		st.internal++
		sh.inconcl[outcome+": "+detail]++
	}
	for c := range ex.covers {
		sh.covers[c] = true
	}
	if len(ex.inputs) > 0 && ex.inputs[0].Kind == "choose" {
		sh.byFirst[ex.inputs[0].Conc]++
	}
	for f := range ex.funcs {
		sh.funcs[f] = true
	}
	wantWitness := outcome == "done" && (sh.witnessAll || (len(sh.witnesses) < sh.witnessTarget() && (st.done%sh.witnessStride() == 0)))
	sh.mu.Unlock()
	if wantWitness {
		w.makeWitness(ex)
	}
	if os.Getenv("VERIF_TRACE") != "" {
		fmt.Fprintf(os.Stderr, "path %v -> %s %s (decisions %v)\n", prefix, outcome, detail, ex.decisions)
	}
	return ex.newAlts
}

func (p *goPanic) describe() string {
	s := p.kind
	if p.msg != "" {
		s += ": " + p.msg
	}
	if p.val != nil {
		if iv, ok := p.val.(IfaceV); ok {
			if sv, ok := iv.v.(StrV); ok {
				if cs, ok := concreteStr(sv); ok {
					s += ": " + cs
				}
			}
		}
	}
	return s
}

func (ex *Exec) reportViolation(kind, site, msg string) {
	v := &violation{Kind: kind, Site: site, Msg: msg, PC: append([]*Term{}, ex.pc...), Inputs: append([]inputRec{}, ex.inputs...), Classes: ex.classes, Choices: append([]int64{}, ex.decisions...), Sched: append([]schedEv{}, ex.schedTrace...)}
	ex.viol = v
	ex.end("violation", site)
}

func siteMatch(pattern, site string) bool {
	return pattern == "*" || strings.Contains(site, pattern)
}

func (sh *Shared) inputSyms(inputs []inputRec) map[string]uint8 {
	syms := map[string]uint8{}
	for _, in := range inputs {
		for _, t := range in.Terms {
			if t.op == OpSym {
				syms[t.name] = t.w
			}
		}
	}
	return syms
}

func renderInputs(inputs []inputRec, model map[string]uint64) []inputJSON {
	out := make([]inputJSON, 0, len(inputs))
	memo := map[*Term]uint64{}
	for _, in := range inputs {
		ij := inputJSON{Label: in.Label, Kind: in.Kind, N: in.Conc}
		switch in.Kind {
		case "choose":
			ij.Val = uint64(in.Conc)
		case "bytes", "string", "bytescap":
			b := make([]byte, len(in.Terms))
			for i, t := range in.Terms {
				b[i] = byte(Eval(t, model, memo))
			}
			ij.Hex = fmt.Sprintf("%x", b)
		case "clock":
			ij.Val = Eval(in.Terms[0], model, memo)
			ij.N = int64(Eval(in.Terms[1], model, memo))
		default:
			ij.Val = Eval(in.Terms[0], model, memo)
		}
		out = append(out, ij)
	}
	return out
}

func (w *Worker) handleViolation(ex *Exec) {
	sh := w.sh
	v := ex.viol
	var relevant []*knownFinding
	for i := range sh.known {
		k := &sh.known[i]
		if k.Status == "known" && k.Harness == sh.harness && siteMatch(k.Site, v.Site) {
			relevant = append(relevant, k)
		}
	}
	ts := ex.ts
	anyClass := ts.ff
	for _, k := range relevant {
		if c, ok := v.Classes[k.Class]; ok {
			anyClass = ts.BOr(anyClass, c)
		} else if k.Class == "*" {
			anyClass = ts.tt
		}
	}
	syms := sh.inputSyms(v.Inputs)
	// 1. a violation outside every known class
	key := v.Kind + "|" + v.Site
	{
		var on []string
		for n, c := range v.Classes {
			if c.IsTrue() {
				on = append(on, n)
			}
		}
		sort.Strings(on)
		key += "|" + strings.Join(on, ",")
	}
	sh.mu.Lock()
	nAlready := sh.candKeys[key]
	sh.mu.Unlock()
	if nAlready < 2 {
		spc, sc := ex.sliced(v.PC, ts.BNot(anyClass))
		r, model := w.solver.CheckModel(spc, sc, syms)
		ex.completeModel(model, syms)
		if r == Unknown {
			w.noteUnknown("violation model")
		}
		if r == Sat {
			c := &candidate{Harness: sh.harness, Kind: v.Kind, Site: v.Site, Msg: v.Msg, Inputs: renderInputs(v.Inputs, model), Choices: v.Choices, Key: key, Sched: v.Sched}
			sh.mu.Lock()
			sh.cands = append(sh.cands, c)
			sh.candKeys[key]++
			sh.mu.Unlock()
		}
	} else {
		// still must know whether a new (non-known) violation exists at this site: yes, already recorded
	}
	// 2. known classes that are hit
	for _, k := range relevant {
		c, ok := v.Classes[k.Class]
		if !ok {
			if k.Class != "*" {
				continue
			}
			c = ts.tt
		}
		kk := k.Harness + "|" + k.Site + "|" + k.Class
		sh.mu.Lock()
		_, seen := sh.knownSeen[kk]
		sh.mu.Unlock()
		if seen {
			continue
		}
		spc, sc := ex.sliced(v.PC, c)
		r, model := w.solver.CheckModel(spc, sc, syms)
		ex.completeModel(model, syms)
		if r == Sat {
			cd := &candidate{Harness: sh.harness, Kind: v.Kind, Site: v.Site, Msg: v.Msg, Known: k, Inputs: renderInputs(v.Inputs, model), Choices: v.Choices, Sched: v.Sched}
			sh.mu.Lock()
			if _, seen := sh.knownSeen[kk]; !seen {
				sh.knownSeen[kk] = cd
			}
			sh.mu.Unlock()
		}
	}
}

func (sh *Shared) witnessTarget() int {
	if sh.tier == 0 {
		return 12
	}
	return 60
}
func (sh *Shared) witnessStride() int {
	if sh.tier == 0 {
		return 7
	}
	return 37
}

func (w *Worker) makeWitness(ex *Exec) {
	sh := w.sh
	syms := sh.inputSyms(ex.inputs)
	seen := map[*Term]bool{}
	for _, o := range ex.observe {
		for _, t := range o.Terms {
			Syms(t, seen, syms)
		}
	}
	spc, _ := ex.sliced(ex.pc, nil)
	r, model := w.solver.CheckModel(spc, nil, syms)
	if r != Sat {
		return
	}
	ex.completeModel(model, syms)
	c := &candidate{Harness: sh.harness, Kind: "witness", Inputs: renderInputs(ex.inputs, model), Choices: ex.decisions, Sched: append([]schedEv{}, ex.schedTrace...)}
	memo := map[*Term]uint64{}
	for _, o := range ex.observe {
		b := make([]byte, 0, len(o.Terms))
		for _, t := range o.Terms {
			v := Eval(t, model, memo)
			switch {
			case t.w <= 8:
				b = append(b, byte(v))
			case t.w <= 16:
				b = append(b, byte(v>>8), byte(v))
			case t.w <= 32:
				b = append(b, byte(v>>24), byte(v>>16), byte(v>>8), byte(v))
			default:
				for s := 56; s >= 0; s -= 8 {
					b = append(b, byte(v>>uint(s)))
				}
			}
		}
		c.Observed = append(c.Observed, obsJSON{Label: o.Label, Hex: fmt.Sprintf("%x", b)})
	}
	sh.mu.Lock()
	sh.witnesses = append(sh.witnesses, c)
	sh.mu.Unlock()
}

type harnessResult struct {
	Name      string
	Pkg       string
	XChecks   []xcheck
	Stats     runStats
	Covers    []string
	Missing   []string
	Inconcl   map[string]int
	Outside   map[string]int
	Cands     []*candidate
	KnownSeen []*candidate
	Witnesses []*candidate
	Funcs     []string
	Wall      float64
	Workers   int
}

func exploreHarness(prog *ssa.Program, fn *ssa.Function, opt runOpts, known []knownFinding, wantCovers []string) *harnessResult {
	t0 := time.Now()
	sh := &Shared{prog: prog, tier: opt.tier, unwind: opt.unwind, maxSteps: opt.maxSteps, seed: opt.seed,
		solverKind: opt.solver, timeoutMS: opt.timeoutMS, known: known, mapRotate: opt.mapRotate, witnessAll: opt.witnessAll,
		covers: map[string]bool{}, outside: map[string]int{}, candKeys: map[string]int{}, knownSeen: map[string]*candidate{},
		funcs: map[string]bool{}, inconcl: map[string]int{}, initPkgs: map[string]bool{}, harness: fn.Name(), byFirst: map[int64]int{}}
	if opt.budgetS > 0 {
		sh.deadline = t0.Add(time.Duration(opt.budgetS) * time.Second)
	}
	for _, p := range prog.AllPackages() {
		if ex0InitAllowed(p.Pkg.Path()) {
			sh.initPkgs[p.Pkg.Path()] = true
		}
	}
	sh.cond = sync.NewCond(&sh.mu)
	sh.work = [][]int64{{}}
	var wg sync.WaitGroup
	workers := make([]*Worker, opt.workers)
	for i := range workers {
		s, err := NewSolver(opt.solver, opt.timeoutMS)
		if err != nil {
			panic(err)
		}
		workers[i] = &Worker{sh: sh, solver: s, fnInfos: map[*ssa.Function]*fnInfo{}, cfgs: map[*ssa.Function]*fnCFG{}, regions: map[*ssa.BasicBlock]*regionInfo{}, id: i}
		wg.Add(1)
		go func(w *Worker) {
			defer wg.Done()
			w.loop(fn)
		}(workers[i])
	}
	stopProg := make(chan bool)
	if os.Getenv("VERIF_PROGRESS") != "" {
		go func() {
			for {
				select {
				case <-stopProg:
					return
				case <-time.After(3 * time.Second):
					sh.mu.Lock()
					q, qt := 0, 0.0
					pw := 0.0
					for _, w := range workers {
						if w != nil && w.solver != nil {
							q += w.solver.queries
							qt += w.solver.timeS
							pw -= w.solver.valueS
						}
					}
					for _, w := range workers {
						if w != nil {
							pw += w.pathWall
						}
					}
					fmt.Fprintf(os.Stderr, "queries=%d solverTime=%.1f pathWall=%.1f inflight=%d ", q, qt, pw, sh.inflight)
					fmt.Fprintf(os.Stderr, "progress: paths=%d done=%d assumed=%d viol=%d queue=%d merges=%d branches=%d maxdepth=%d inconcl=%v\n", sh.stats.paths, sh.stats.done, sh.stats.assumed, sh.stats.violations, len(sh.work), sh.stats.merges, sh.stats.branches, sh.stats.maxDepth, sh.inconcl)
					type kv struct{ k int64; v int }
					var kvs []kv
					for k, v := range sh.byFirst {
						kvs = append(kvs, kv{k, v})
					}
					sort.Slice(kvs, func(i, j int) bool { return kvs[i].v > kvs[j].v })
					if len(kvs) > 8 {
						kvs = kvs[:8]
					}
					fmt.Fprintf(os.Stderr, "  byFirst(top)=%v\n", kvs)
					sh.mu.Unlock()
				}
			}
		}()
	}
	wg.Wait()
	close(stopProg)
	for _, w := range workers {
		sh.stats.queries += w.solver.queries
		sh.stats.solverTime += w.solver.timeS
		if w.solver.errors > 0 {
			sh.inconcl["solver reported errors"] += w.solver.errors
		}
		w.solver.Close()
	}
	res := &harnessResult{Name: fn.Name(), XChecks: sh.xchecks, Stats: sh.stats, Inconcl: sh.inconcl, Outside: sh.outside, Cands: sh.cands, Witnesses: sh.witnesses,
		Wall: time.Since(t0).Seconds(), Workers: opt.workers}
	for c := range sh.covers {
		res.Covers = append(res.Covers, c)
	}
	sort.Strings(res.Covers)
	for _, c := range wantCovers {
		if !sh.covers[c] {
			res.Missing = append(res.Missing, c)
		}
	}
	for _, k := range sh.knownSeen {
		res.KnownSeen = append(res.KnownSeen, k)
	}
	sort.Slice(res.KnownSeen, func(i, j int) bool { return res.KnownSeen[i].Known.Class < res.KnownSeen[j].Known.Class })
	for f := range sh.funcs {
		res.Funcs = append(res.Funcs, f)
	}
	sort.Strings(res.Funcs)
	return res
}

type runOpts struct {
	tier      int
	unwind    int
	maxSteps  int
	seed      int64
	solver    string
	timeoutMS int
	workers   int
	mapRotate int
	budgetS   int
	witnessAll bool
}

func tail(s []string, n int) []string {
	if len(s) > n {
		return s[len(s)-n:]
	}
	return s
}

// completeModel gives symbols the solver never saw (constrained only by unary conjuncts) a value
// from their value set.
func (ex *Exec) completeModel(model map[string]uint64, syms map[string]uint8) {
	if model == nil {
		return
	}
	for n := range syms {
		if _, ok := model[n]; ok {
			continue
		}
		if bs, ok := ex.vsets[n]; ok {
			for v := 0; v < 256; v++ {
				if bs[v/64]&(1<<uint(v%64)) != 0 {
					model[n] = uint64(v)
					break
				}
			}
		}
	}
}
