package main

import (
	"fmt"
	"go/types"
	"strings"

	repoutils "github.com/cuteLittleDevil/go-jt808/protocol/utils"
	"golang.org/x/tools/go/ssa"
)

type stubFn func(ex *Exec, fn *ssa.Function, args []Value) []Value

var stubs map[string]stubFn

func init() {
	stubs = map[string]stubFn{
		"fmt.Sprintf":  stubSprintf,
		"fmt.Errorf":   stubErrorf,
		"fmt.Println":  stubNop,
		"fmt.Printf":   stubNop,
		"fmt.Print":    stubNop,
		"fmt.Sprint":   stubOpaqueStr,
		"fmt.Sprintln": stubOpaqueStr,
		"errors.Is":    stubErrorsIs,
		"(*errors.joinError).Error": stubOpaqueStr, // real code builds the text with unsafe.String

		"(*sync.Once).Do":        stubOnceDo,
		"(*sync.Mutex).Lock":     stubNop,
		"(*sync.Mutex).Unlock":   stubNop,
		"(*sync.RWMutex).Lock":   stubNop,
		"(*sync.RWMutex).Unlock": stubNop,
		"(*sync.RWMutex).RLock":  stubNop,
		"(*sync.RWMutex).RUnlock": stubNop,

		"time.Now":           stubTimeNow,
		"time.Sleep":         stubTimeSleep,
		"internal/stringslite.Clone": stubIdentity1,
		"strings.Clone":              stubIdentity1,
		"(*sync.Pool).Get":   stubPoolGet,
		"(*sync.Pool).Put":   stubPoolPut,
		"(time.Time).Format": stubOpaqueStr,
		"(time.Time).String": stubOpaqueStr,

		"bytes.IndexByte":    stubIndexByte,
		"bytes.IndexFunc":    stubIndexFunc,
		"bytes.Contains":     stubBytesContains,
		"bytes.IndexAny":     stubIndexAny,
		"strings.IndexAny":   stubIndexAny,
		"bytes.ContainsAny":  stubContainsAny,
		"strings.ContainsAny": stubContainsAny,
		"bytes.ContainsRune": stubContainsRune,
		"bytes.Index":        stubBytesIndex,
		"bytes.Equal":        stubBytesEqual,
		"bytes.Compare":      stubBytesCompare,
		"strings.Contains":   stubStringsContains,
		"strings.Index":      stubStringsIndex,
		"strings.IndexByte":  stubStringsIndexByte,
		"strings.Join":       stubStringsJoin,
		"strings.Repeat":     stubStringsRepeat,
		"strings.ReplaceAll": stubStringsReplaceAll,
		"strings.Replace":    stubStringsReplace,
		"strings.HasPrefix":  stubStringsHasPrefix,

		"internal/bytealg.IndexByte":       stubIndexByte,
		"internal/bytealg.IndexByteString": stubStringsIndexByte,
		"internal/bytealg.Equal":           stubBytesEqual,
		"internal/bytealg.MakeNoZero":      stubMakeNoZero,
		"internal/bytealg.CountString":     stubCountString,
		"internal/bytealg.Count":           stubCountBytes,

		"sort.Slice": stubSortSlice,

		"reflect.ValueOf":                stubReflectValueOf,
		"(reflect.Value).NumField":       stubReflectNumField,
		"(reflect.Value).Field":          stubReflectField,
		"(reflect.Value).CanInterface":   stubReflectCanInterface,
		"(reflect.Value).Interface":      stubReflectInterface,

		"os.MkdirAll":              stubFS("MkdirAll"),
		"os.WriteFile":             stubFS("WriteFile"),
		"os.OpenFile":              stubOpenFile,
		"(*os.File).WriteString":   stubFileWrite,
		"(*os.File).Sync":          stubNilErr,
		"(*os.File).Close":         stubNilErr,

		"(*net.TCPConn).Read":  stubTCPRead,
		"(*net.TCPConn).Write": stubTCPWrite,
		"(*net.TCPConn).Close": stubTCPClose,
		"(*net.conn).Read":     stubTCPRead,
		"(*net.conn).Write":    stubTCPWrite,
		"(*net.conn).Close":    stubTCPClose,

		"github.com/cuteLittleDevil/go-jt808/protocol/utils.GBK2UTF8": stubGBK(true),
		"github.com/cuteLittleDevil/go-jt808/protocol/utils.UTF82GBK": stubGBK(false),
	}
}

func prefixStub(name string, fn *ssa.Function) stubFn {
	if fn.Pkg != nil {
		p := fn.Pkg.Pkg.Path()
		if p == "log/slog" {
			return stubZeroResults
		}
		if p == "log" {
			return stubZeroResults
		}
	}
	if strings.HasPrefix(name, "(*log/slog.") || strings.HasPrefix(name, "(log/slog.") {
		return stubZeroResults
	}
	n := fn.Name()
	if strings.HasPrefix(n, "vrt_") {
		if st, ok := vrtStubs[n]; ok {
			return st
		}
		return func(ex *Exec, fn *ssa.Function, args []Value) []Value {
			ex.end("internal", "unknown vrt primitive "+n)
			return nil
		}
	}
	// package initialisers of packages that are not executed
	if n == "init" && fn.Pkg != nil && fn.Signature.Recv() == nil && fn.Synthetic != "" {
		if !ex0InitAllowed(fn.Pkg.Pkg.Path()) {
			return stubNop
		}
	}
	// strings.Builder is built on unsafe; model its methods
	if strings.HasPrefix(name, "(*strings.Builder).") {
		return stubBuilder(n)
	}
	return nil
}

var initAllowed = map[string]bool{
	"errors": false, "io": true, "unicode/utf8": true, "bytes": true, "strings": true,
	"encoding/hex": true, "encoding/binary": true, "sort": true, "slices": true, "maps": true,
	"path/filepath": true, "strconv": true, "unicode": false,
}

func ex0InitAllowed(path string) bool {
	if strings.HasPrefix(path, "github.com/cuteLittleDevil/") {
		return true
	}
	return initAllowed[path]
}

func stubNop(ex *Exec, fn *ssa.Function, args []Value) []Value { return zeroResults(ex, fn) }

func zeroResults(ex *Exec, fn *ssa.Function) []Value {
	res := fn.Signature.Results()
	out := make([]Value, res.Len())
	for i := range out {
		out[i] = ex.zero(res.At(i).Type())
	}
	return out
}

func stubZeroResults(ex *Exec, fn *ssa.Function, args []Value) []Value { return zeroResults(ex, fn) }
func stubNilErr(ex *Exec, fn *ssa.Function, args []Value) []Value      { return zeroResults(ex, fn) }
func stubOpaqueStr(ex *Exec, fn *ssa.Function, args []Value) []Value {
	return []Value{StrV{opaque: true}}
}

// ---- fmt ----

// methodOf finds a method by name in the method set of t (value or pointer receiver as applicable).
func (ex *Exec) methodOf(t types.Type, name string) *ssa.Function {
	if t == nil || t == sentinelType {
		return nil
	}
	ms := ex.w.sh.prog.MethodSets.MethodSet(t)
	for i := 0; i < ms.Len(); i++ {
		sel := ms.At(i)
		if sel.Obj().Name() == name {
			return ex.w.sh.prog.MethodValue(sel)
		}
	}
	return nil
}

// displayString resolves Stringer / error arguments for string verbs.
func (ex *Exec) displayString(a IfaceV) (StrV, bool) {
	if a.t == nil {
		return StrV{}, false
	}
	if a.t == sentinelType {
		return StrV{opaque: true}, true
	}
	for _, mn := range []string{"Error", "String"} {
		if m := ex.methodOf(a.t, mn); m != nil {
			sig := m.Signature
			if sig.Params().Len() == 0 && sig.Results().Len() == 1 && isStringType(sig.Results().At(0).Type()) {
				// a nil pointer receiver with a pointer method would panic inside; let it
				res := ex.callFn(m, []Value{a.v}, nil)
				return res[0].(StrV), true
			}
		}
	}
	return StrV{}, false
}

// nativeValue converts a fully concrete value to a Go value usable with the real fmt.
func (ex *Exec) nativeValue(t types.Type, v Value) (interface{}, bool) {
	switch x := v.(type) {
	case *Term:
		if !x.IsConst() {
			return nil, false
		}
		b, ok := t.Underlying().(*types.Basic)
		if !ok {
			return nil, false
		}
		switch b.Kind() {
		case types.Bool:
			return x.k != 0, true
		case types.Int8:
			return int8(x.k), true
		case types.Int16:
			return int16(x.k), true
		case types.Int32:
			return int32(x.k), true
		case types.Int64:
			return int64(x.k), true
		case types.Int:
			return int(x.k), true
		case types.Uint8:
			return uint8(x.k), true
		case types.Uint16:
			return uint16(x.k), true
		case types.Uint32:
			return uint32(x.k), true
		case types.Uint64:
			return uint64(x.k), true
		case types.Uint, types.Uintptr:
			return uint(x.k), true
		}
	case StrV:
		s, ok := concreteStr(x)
		return s, ok
	case FloatV:
		if x.known {
			return x.f, true
		}
	case SliceV:
		if sl, ok := t.Underlying().(*types.Slice); ok {
			if b, ok := sl.Elem().Underlying().(*types.Basic); ok && b.Kind() == types.Uint8 {
				if x.obj == nil {
					return []byte(nil), true
				}
				out := make([]byte, x.len)
				for i, t := range ex.sliceBytes(x) {
					if !t.IsConst() {
						return nil, false
					}
					out[i] = byte(t.k)
				}
				return out, true
			}
		}
	case ArrayV:
		if at, ok := t.Underlying().(*types.Array); ok {
			if b, ok := at.Elem().Underlying().(*types.Basic); ok && b.Kind() == types.Uint8 {
				out := make([]byte, len(x.e))
				for i, e := range x.e {
					t := e.(*Term)
					if !t.IsConst() {
						return nil, false
					}
					out[i] = byte(t.k)
				}
				return out, true
			}
		}
	case IfaceV:
		if x.t == nil {
			return nil, true
		}
	}
	return nil, false
}

func hexDigit(ex *Exec, nib *Term, upper bool) *Term {
	ts := ex.ts
	n8 := ts.ZExt(nib, 8)
	base := uint64('a' - 10)
	if upper {
		base = 'A' - 10
	}
	return ts.Ite(ts.Cmp(OpUlt, n8, ts.Const(8, 10)), ts.Bin(OpAdd, n8, ts.Const(8, '0')), ts.Bin(OpAdd, n8, ts.Const(8, base)))
}

func (ex *Exec) hexOfBytes(b []*Term, upper bool) []*Term {
	out := make([]*Term, 0, 2*len(b))
	for _, t := range b {
		out = append(out, hexDigit(ex, ex.ts.Extract(t, 7, 4), upper), hexDigit(ex, ex.ts.Extract(t, 3, 0), upper))
	}
	return out
}

func pad(ex *Exec, s []*Term, width int, zero, left bool) []*Term {
	if len(s) >= width {
		return s
	}
	p := byte(' ')
	if zero && !left {
		p = '0'
	}
	fill := make([]*Term, width-len(s))
	for i := range fill {
		fill[i] = ex.cbyte(p)
	}
	if left {
		return append(append([]*Term{}, s...), fill...)
	}
	return append(fill, s...)
}

// sprintf returns the formatted string (possibly opaque) and the operands of %w verbs.
func (ex *Exec) sprintf(format string, args []IfaceV) (StrV, []IfaceV) {
	var out []*Term
	opaque := false
	var wrapped []IfaceV
	ai := 0
	i := 0
	lit := func(s string) { out = append(out, ex.bytesConst([]byte(s))...) }
	for i < len(format) {
		c := format[i]
		if c != '%' {
			out = append(out, ex.cbyte(c))
			i++
			continue
		}
		j := i + 1
		flags := ""
		for j < len(format) && strings.IndexByte("+-# 0", format[j]) >= 0 {
			flags += string(format[j])
			j++
		}
		width, hasWidth := 0, false
		for j < len(format) && format[j] >= '0' && format[j] <= '9' {
			width = width*10 + int(format[j]-'0')
			hasWidth = true
			j++
		}
		prec, hasPrec := 0, false
		if j < len(format) && format[j] == '.' {
			j++
			hasPrec = true
			for j < len(format) && format[j] >= '0' && format[j] <= '9' {
				prec = prec*10 + int(format[j]-'0')
				j++
			}
		}
		if j >= len(format) {
			lit("%!(NOVERB)")
			break
		}
		verb := format[j]
		spec := format[i : j+1]
		i = j + 1
		if verb == '%' {
			out = append(out, ex.cbyte('%'))
			continue
		}
		if ai >= len(args) {
			lit("%!" + string(verb) + "(MISSING)")
			continue
		}
		a := args[ai]
		ai++
		if verb == 'w' {
			wrapped = append(wrapped, a)
			verb = 'v'
			spec = spec[:len(spec)-1] + "v"
		}
		zero := strings.Contains(flags, "0")
		left := strings.Contains(flags, "-")
		// Stringer / error for string-like verbs
		if strings.IndexByte("svxXq", verb) >= 0 && a.t != nil {
			if s, ok := ex.displayString(a); ok {
				a = IfaceV{t: types.Typ[types.String], v: s}
			}
		}
		if a.t != nil {
			if nv, ok := ex.nativeValue(a.t, a.v); ok {
				lit(fmt.Sprintf(spec, nv))
				continue
			}
		} else {
			lit(fmt.Sprintf(spec, nil))
			continue
		}
		// symbolic operand
		switch v := a.v.(type) {
		case StrV:
			if v.opaque {
				opaque = true
				continue
			}
			switch verb {
			case 's', 'v':
				s := v.b
				if hasPrec && prec < len(s) {
					s = s[:prec]
				}
				if hasWidth {
					s = pad(ex, s, width, zero, left)
				}
				out = append(out, s...)
				continue
			case 'x', 'X':
				s := ex.hexOfBytes(v.b, verb == 'X')
				if hasWidth {
					s = pad(ex, s, width, zero, left)
				}
				out = append(out, s...)
				continue
			}
		case SliceV:
			if sl, ok := a.t.Underlying().(*types.Slice); ok {
				if b, ok := sl.Elem().Underlying().(*types.Basic); ok && b.Kind() == types.Uint8 {
					var bs []*Term
					if v.obj != nil {
						bs = ex.sliceBytes(v)
					}
					switch verb {
					case 'x', 'X':
						s := ex.hexOfBytes(bs, verb == 'X')
						if hasWidth {
							s = pad(ex, s, width, zero, left)
						}
						out = append(out, s...)
						continue
					case 's':
						s := bs
						if hasWidth {
							s = pad(ex, s, width, zero, left)
						}
						out = append(out, s...)
						continue
					}
				}
			}
		case ArrayV:
			if at, ok := a.t.Underlying().(*types.Array); ok {
				if b, ok := at.Elem().Underlying().(*types.Basic); ok && b.Kind() == types.Uint8 && (verb == 'x' || verb == 'X') {
					bs := make([]*Term, len(v.e))
					for k, e := range v.e {
						bs[k] = e.(*Term)
					}
					s := ex.hexOfBytes(bs, verb == 'X')
					if hasWidth {
						s = pad(ex, s, width, zero, left)
					}
					out = append(out, s...)
					continue
				}
			}
		case *Term:
			if v.w > 0 && isIntType(a.t) {
				_, signed := typeWidth(a.t)
				switch verb {
				case 'b':
					n := 0
					if hasPrec {
						n = prec
					} else if hasWidth && zero {
						n = width
					}
					if !signed && n >= int(v.w) {
						for k := n - 1; k >= 0; k-- {
							if k >= int(v.w) {
								out = append(out, ex.cbyte('0'))
							} else {
								bit := ex.ts.Extract(v, uint8(k), uint8(k))
								out = append(out, ex.ts.Ite(ex.ts.Eq(bit, ex.ts.Const(1, 1)), ex.cbyte('1'), ex.cbyte('0')))
							}
						}
						continue
					}
				case 'x', 'X':
					n := 0
					if hasPrec {
						n = prec
					} else if hasWidth && zero {
						n = width
					}
					if !signed && n*4 >= int(v.w) && v.w%4 == 0 {
						for k := n - 1; k >= 0; k-- {
							if k*4 >= int(v.w) {
								out = append(out, ex.cbyte('0'))
							} else {
								out = append(out, hexDigit(ex, ex.ts.Extract(v, uint8(k*4+3), uint8(k*4)), verb == 'X'))
							}
						}
						continue
					}
				}
			}
		}
		opaque = true
	}
	if opaque {
		return StrV{opaque: true}, wrapped
	}
	return StrV{b: out}, wrapped
}

func (ex *Exec) ifaceArgs(v Value) []IfaceV {
	s := v.(SliceV)
	out := make([]IfaceV, s.len)
	for i := 0; i < s.len; i++ {
		x := s.obj.get(s.off + i)
		if x == nil {
			out[i] = IfaceV{}
		} else {
			out[i] = x.(IfaceV)
		}
	}
	return out
}

func stubSprintf(ex *Exec, fn *ssa.Function, args []Value) []Value {
	f, ok := concreteStr(args[0].(StrV))
	if !ok {
		return []Value{StrV{opaque: true}}
	}
	s, _ := ex.sprintf(f, ex.ifaceArgs(args[1]))
	return []Value{s}
}

// newStructPtr allocates a struct of the named type and returns a pointer to it.
func (ex *Exec) newStructPtr(t types.Type, fields ...Value) PtrV {
	o := ex.allocObj(t, "stub:"+t.String())
	ex.storeVal(o, 0, t, StructV{f: fields})
	return PtrV{obj: o}
}

func (ex *Exec) pkgType(pkg, name string) types.Type {
	p := ex.w.sh.prog.ImportedPackage(pkg)
	if p == nil {
		ex.unsupported("package %s not loaded", pkg)
	}
	m := p.Members[name]
	if m == nil {
		ex.unsupported("type %s.%s not found", pkg, name)
	}
	return m.(*ssa.Type).Type()
}

func stubErrorf(ex *Exec, fn *ssa.Function, args []Value) []Value {
	f, ok := concreteStr(args[0].(StrV))
	if !ok {
		ex.unsupported("fmt.Errorf with non-constant format")
	}
	msg, wrapped := ex.sprintf(f, ex.ifaceArgs(args[1]))
	switch len(wrapped) {
	case 0:
		t := ex.pkgType("errors", "errorString")
		p := ex.newStructPtr(t, msg)
		return []Value{IfaceV{t: types.NewPointer(t), v: p}}
	case 1:
		t := ex.pkgType("fmt", "wrapError")
		p := ex.newStructPtr(t, msg, wrapped[0])
		return []Value{IfaceV{t: types.NewPointer(t), v: p}}
	}
	t := ex.pkgType("fmt", "wrapErrors")
	o := ex.newObj(len(wrapped), "wrapErrors")
	for i, w := range wrapped {
		o.set(i, w)
	}
	p := ex.newStructPtr(t, msg, SliceV{obj: o, len: len(wrapped), cap: len(wrapped), es: 1})
	return []Value{IfaceV{t: types.NewPointer(t), v: p}}
}

// ---- errors ----

func (ex *Exec) errorsIs(err, target IfaceV, depth int) bool {
	if depth > 50 {
		ex.unsupported("errors.Is chain too deep")
	}
	if err.t == nil || target.t == nil {
		return err.t == nil && target.t == nil
	}
	for {
		eq := ex.valEq(err, target)
		if ex.branch(eq) {
			return true
		}
		if m := ex.methodOf(err.t, "Is"); m != nil && m.Signature.Params().Len() == 1 {
			r := ex.callFn(m, []Value{err.v, target}, nil)
			if ex.branch(r[0].(*Term)) {
				return true
			}
		}
		m := ex.methodOf(err.t, "Unwrap")
		if m == nil || m.Signature.Results().Len() != 1 {
			return false
		}
		rt := m.Signature.Results().At(0).Type()
		r := ex.callFn(m, []Value{err.v}, nil)
		if _, isSlice := rt.Underlying().(*types.Slice); isSlice {
			s := r[0].(SliceV)
			for i := 0; i < s.len; i++ {
				e := s.obj.get(s.off + i).(IfaceV)
				if ex.errorsIs(e, target, depth+1) {
					return true
				}
			}
			return false
		}
		err = r[0].(IfaceV)
		if err.t == nil {
			return false
		}
	}
}

func stubErrorsIs(ex *Exec, fn *ssa.Function, args []Value) []Value {
	return []Value{ex.ts.Bool(ex.errorsIs(args[0].(IfaceV), args[1].(IfaceV), 0))}
}

// ---- sync / time ----

func stubOnceDo(ex *Exec, fn *ssa.Function, args []Value) []Value {
	p := args[0].(PtrV)
	if p.obj == nil {
		ex.rtPanic("nil pointer dereference", "sync.Once")
	}
	done := p.obj.get(p.off)
	if t, ok := done.(*Term); ok && t.IsConst() && t.k != 0 {
		return nil
	}
	if sv, ok := done.(StructV); ok {
		_ = sv
	}
	p.obj.set(p.off, ex.ts.Const(32, 1))
	ex.callValue(args[1], nil, nil)
	return nil
}

// sync.Pool: a legal and, for aliasing questions, the least forgiving behaviour - Get hands back
// the item most recently Put (otherwise calls New); nothing is ever dropped.
func poolItems(ex *Exec, v Value) (*Obj, int) {
	p, ok := v.(PtrV)
	if !ok || p.obj == nil {
		ex.rtPanic("nil pointer dereference", "sync.Pool")
	}
	return p.obj, p.off
}

func stubPoolGet(ex *Exec, fn *ssa.Function, args []Value) []Value {
	o, off := poolItems(ex, args[0])
	key := poolKey{o, off}
	if ex.pools == nil {
		ex.pools = map[poolKey][]Value{}
	}
	if l := ex.pools[key]; len(l) > 0 {
		v := l[len(l)-1]
		ex.pools[key] = l[:len(l)-1]
		return []Value{v}
	}
	// field New func() any
	pt := fn.Signature.Recv().Type().(*types.Pointer).Elem().Underlying().(*types.Struct)
	for i := 0; i < pt.NumFields(); i++ {
		if pt.Field(i).Name() == "New" {
			nf := o.get(off + ex.fieldOffset(pt, i))
			if f, ok := nf.(FuncV); ok && f.fn != nil {
				return ex.callValue(f, nil, nil)[:1]
			}
		}
	}
	return []Value{IfaceV{}}
}

// strings.Clone: strings are immutable values in the executor
func stubIdentity1(ex *Exec, fn *ssa.Function, args []Value) []Value { return []Value{args[0]} }

func stubPoolPut(ex *Exec, fn *ssa.Function, args []Value) []Value {
	o, off := poolItems(ex, args[0])
	if ex.pools == nil {
		ex.pools = map[poolKey][]Value{}
	}
	key := poolKey{o, off}
	ex.pools[key] = append(ex.pools[key], args[1])
	return nil
}

type poolKey struct {
	o   *Obj
	off int
}

func (ex *Exec) timeType() types.Type { return ex.pkgType("time", "Time") }

func stubTimeNow(ex *Exec, fn *ssa.Function, args []Value) []Value {
	ts := ex.ts
	if ex.clockFrozen {
		// harness asked for a clock that stands still at a fixed instant (2024-01-01 00:00:00 UTC)
		// (not recorded as an input: natively vrtNow returns the same instant when the script has no
		// clock reading next, whichever goroutine asks)
		sec, nsec := ts.Const(64, 63839664000), ts.Const(64, 0)
		return []Value{StructV{f: []Value{nsec, sec, PtrV{}}}}
	}
	ex.nowSeq++
	sec := ts.Sym(64, fmt.Sprintf("now.sec#%d", ex.nowSeq))
	// bound: instants are whole seconds (nanoseconds 0); a sane range of seconds since year 1
	nsec := ts.Const(64, 0)
	ex.inputs = append(ex.inputs, inputRec{Label: "time.Now", Kind: "clock", Terms: []*Term{sec, nsec}})
	ex.assume(ts.Cmp(OpUle, ts.Const(64, 63839664000), sec))
	ex.assume(ts.Cmp(OpUle, sec, ts.Const(64, 63839664000+1000000)))
	if ex.lastNow[0] != nil {
		ex.assume(ts.Cmp(OpUle, ex.lastNow[0], sec)) // non-decreasing
	}
	ex.lastNow = [2]*Term{sec, nsec}
	// time.Time{wall: nsec (no monotonic), ext: seconds since year 1, loc: nil (UTC)}
	return []Value{StructV{f: []Value{nsec, sec, PtrV{}}}}
}

func stubTimeSleep(ex *Exec, fn *ssa.Function, args []Value) []Value {
	ex.schedPoint("sleep")
	g := ex.cur
	if ex.schedOn && g.lastEv < len(ex.schedTrace) {
		ex.schedTrace[g.lastEv].Blocks = true
	}
	g.sleeping = true
	ex.reschedule()
	ex.traceResume(g)
	return nil
}

// ---- byte/string search models ----

func termsOf(ex *Exec, v Value) []*Term {
	switch x := v.(type) {
	case SliceV:
		if x.obj == nil {
			return nil
		}
		return ex.sliceBytes(x)
	case StrV:
		if x.opaque {
			ex.unsupported("search in opaque string")
		}
		return x.b
	}
	ex.unsupported("termsOf %T", v)
	return nil
}

// indexOf returns the first-match index as a 64-bit term (-1 when absent).
func indexOf(ex *Exec, hay []*Term, match func(i int) *Term, n int) *Term {
	ts := ex.ts
	r := ts.Const(64, ^uint64(0))
	for i := n - 1; i >= 0; i-- {
		r = ts.Ite(match(i), ts.Const(64, uint64(i)), r)
	}
	return r
}

func stubIndexByte(ex *Exec, fn *ssa.Function, args []Value) []Value {
	hay := termsOf(ex, args[0])
	c := args[1].(*Term)
	return []Value{indexOf(ex, hay, func(i int) *Term { return ex.ts.Eq(hay[i], c) }, len(hay))}
}

func stubStringsIndexByte(ex *Exec, fn *ssa.Function, args []Value) []Value {
	return stubIndexByte(ex, fn, args)
}

func matchAt(ex *Exec, hay, sep []*Term, i int) *Term {
	r := ex.ts.tt
	for k := range sep {
		r = ex.ts.BAnd(r, ex.ts.Eq(hay[i+k], sep[k]))
		if r.IsFalse() {
			break
		}
	}
	return r
}

func indexSeq(ex *Exec, hay, sep []*Term) *Term {
	n := len(hay) - len(sep) + 1
	if n < 0 {
		n = 0
	}
	if len(sep) == 0 {
		return ex.ts.Const(64, 0)
	}
	return indexOf(ex, hay, func(i int) *Term { return matchAt(ex, hay, sep, i) }, n)
}

func stubBytesIndex(ex *Exec, fn *ssa.Function, args []Value) []Value {
	return []Value{indexSeq(ex, termsOf(ex, args[0]), termsOf(ex, args[1]))}
}
func stubStringsIndex(ex *Exec, fn *ssa.Function, args []Value) []Value {
	return []Value{indexSeq(ex, termsOf(ex, args[0]), termsOf(ex, args[1]))}
}
func containsSeq(ex *Exec, hay, sep []*Term) *Term {
	idx := indexSeq(ex, hay, sep)
	return ex.ts.BNot(ex.ts.Eq(idx, ex.ts.Const(64, ^uint64(0))))
}
func stubBytesContains(ex *Exec, fn *ssa.Function, args []Value) []Value {
	return []Value{containsSeq(ex, termsOf(ex, args[0]), termsOf(ex, args[1]))}
}
func stubStringsContains(ex *Exec, fn *ssa.Function, args []Value) []Value {
	return []Value{containsSeq(ex, termsOf(ex, args[0]), termsOf(ex, args[1]))}
}
func stubStringsHasPrefix(ex *Exec, fn *ssa.Function, args []Value) []Value {
	a, b := termsOf(ex, args[0]), termsOf(ex, args[1])
	if len(a) < len(b) {
		return []Value{ex.ts.ff}
	}
	return []Value{matchAt(ex, a, b, 0)}
}
func stubContainsRune(ex *Exec, fn *ssa.Function, args []Value) []Value {
	hay := termsOf(ex, args[0])
	r := args[1].(*Term)
	if !r.IsConst() || r.k >= 0x80 {
		ex.unsupported("bytes.ContainsRune with non-ASCII or symbolic rune")
	}
	c := ex.cbyte(byte(r.k))
	res := ex.ts.ff
	for _, h := range hay {
		res = ex.ts.BOr(res, ex.ts.Eq(h, c))
	}
	return []Value{res}
}
func stubBytesEqual(ex *Exec, fn *ssa.Function, args []Value) []Value {
	a, b := termsOf(ex, args[0]), termsOf(ex, args[1])
	if len(a) != len(b) {
		return []Value{ex.ts.ff}
	}
	return []Value{matchAt(ex, a, b, 0)}
}
func stubBytesCompare(ex *Exec, fn *ssa.Function, args []Value) []Value {
	a, b := StrV{b: termsOf(ex, args[0])}, StrV{b: termsOf(ex, args[1])}
	ts := ex.ts
	lt := ex.strLess(a, b)
	eq := ex.strEq(a, b)
	return []Value{ts.Ite(eq, ts.Const(64, 0), ts.Ite(lt, ts.Const(64, ^uint64(0)), ts.Const(64, 1)))}
}
func stubMakeNoZero(ex *Exec, fn *ssa.Function, args []Value) []Value {
	n := int(ex.concretize(args[0].(*Term), 1100, "MakeNoZero"))
	return []Value{ex.newByteSlice(make([]*Term, 0), n, "MakeNoZero").withLen(n)}
}
func (s SliceV) withLen(n int) SliceV { s.len = n; return s }

func countByte(ex *Exec, hay []*Term, c *Term) *Term {
	ts := ex.ts
	r := ts.Const(64, 0)
	for _, h := range hay {
		r = ts.Bin(OpAdd, r, ts.Ite(ts.Eq(h, c), ts.Const(64, 1), ts.Const(64, 0)))
	}
	return r
}
func stubCountString(ex *Exec, fn *ssa.Function, args []Value) []Value {
	return []Value{countByte(ex, termsOf(ex, args[0]), args[1].(*Term))}
}
func stubCountBytes(ex *Exec, fn *ssa.Function, args []Value) []Value {
	return []Value{countByte(ex, termsOf(ex, args[0]), args[1].(*Term))}
}

// bytes.IndexFunc: exact byte-wise model provided f is false for every rune >= 0x80 that can occur
// (checked); a byte >= 0x80 is presented to f as an unconstrained rune >= 0x80.
func stubIndexFunc(ex *Exec, fn *ssa.Function, args []Value) []Value {
	hay := termsOf(ex, args[0])
	ts := ex.ts
	for i, b := range hay {
		var r *Term
		ascii := ts.Cmp(OpUlt, b, ts.Const(8, 0x80))
		if av, dec := ex.quickDecide(ascii); dec && av {
			ascii = ts.tt
		}
		if ascii.IsTrue() {
			r = ts.ZExt(b, 32)
		} else {
			ex.symSeq["indexfunc.rune"]++
			fresh := ts.Sym(32, fmt.Sprintf("indexfunc.rune#%d", ex.symSeq["indexfunc.rune"]))
			ex.addPC(ts.Cmp(OpUle, ts.Const(32, 0x80), fresh))
			ex.addPC(ts.Cmp(OpUle, fresh, ts.Const(32, 0x10FFFF)))
			r = ts.Ite(ascii, ts.ZExt(b, 32), fresh)
		}
		res := ex.callValue(args[1], []Value{r}, nil)[0].(*Term)
		if ex.branch(res) {
			if !ascii.IsTrue() {
				if !ex.branch(ascii) {
					ex.unsupported("bytes.IndexFunc predicate true on a non-ASCII byte")
				}
			}
			return []Value{ex.cint(int64(i))}
		}
	}
	return []Value{ex.cint(-1)}
}

// ---- strings helpers on possibly opaque strings ----

func strSliceOf(ex *Exec, v Value) []StrV {
	s := v.(SliceV)
	out := make([]StrV, s.len)
	for i := 0; i < s.len; i++ {
		x := s.obj.get(s.off + i)
		if x != nil {
			out[i] = x.(StrV)
		}
	}
	return out
}

func stubStringsJoin(ex *Exec, fn *ssa.Function, args []Value) []Value {
	elems := strSliceOf(ex, args[0])
	sep := args[1].(StrV)
	var out []*Term
	for i, e := range elems {
		if e.opaque || sep.opaque {
			return []Value{StrV{opaque: true}}
		}
		if i > 0 {
			out = append(out, sep.b...)
		}
		out = append(out, e.b...)
	}
	return []Value{StrV{b: out}}
}

func stubStringsRepeat(ex *Exec, fn *ssa.Function, args []Value) []Value {
	s := args[0].(StrV)
	n := int(int64(ex.concretize(args[1].(*Term), 1100, "Repeat count")))
	if n < 0 {
		ex.rtPanic("strings: negative Repeat count", "")
	}
	if s.opaque {
		return []Value{s}
	}
	var out []*Term
	for i := 0; i < n; i++ {
		out = append(out, s.b...)
	}
	return []Value{StrV{b: out}}
}

func replaceStr(ex *Exec, s, old, nw StrV, n int) StrV {
	if s.opaque || old.opaque || nw.opaque {
		return StrV{opaque: true}
	}
	if len(old.b) == 0 {
		ex.unsupported("strings.Replace with empty old")
	}
	var out []*Term
	i := 0
	for i < len(s.b) {
		if n != 0 && i+len(old.b) <= len(s.b) {
			m := matchAt(ex, s.b, old.b, i)
			if ex.branch(m) {
				out = append(out, nw.b...)
				i += len(old.b)
				if n > 0 {
					n--
				}
				continue
			}
		}
		out = append(out, s.b[i])
		i++
	}
	return StrV{b: out}
}

func stubStringsReplaceAll(ex *Exec, fn *ssa.Function, args []Value) []Value {
	return []Value{replaceStr(ex, args[0].(StrV), args[1].(StrV), args[2].(StrV), -1)}
}
func stubStringsReplace(ex *Exec, fn *ssa.Function, args []Value) []Value {
	n := int(int64(ex.concretize(args[3].(*Term), 64, "Replace n")))
	return []Value{replaceStr(ex, args[0].(StrV), args[1].(StrV), args[2].(StrV), n)}
}

// strings.Builder model: the Builder struct is {addr *Builder; buf []byte}; we keep the text in buf.
func stubBuilder(method string) stubFn {
	return func(ex *Exec, fn *ssa.Function, args []Value) []Value {
		p := args[0].(PtrV)
		if p.obj == nil {
			ex.rtPanic("nil pointer dereference", "strings.Builder")
		}
		bufOff := p.off + 1
		cur, _ := p.obj.get(bufOff).(SliceV)
		var curB []*Term
		if cur.obj != nil {
			curB = ex.sliceBytes(cur)
		}
		opq, _ := p.obj.tag.(bool)
		setBuf := func(b []*Term) {
			p.obj.set(bufOff, ex.newByteSlice(b, 0, "strings.Builder"))
		}
		switch method {
		case "WriteString":
			s := args[1].(StrV)
			if s.opaque {
				p.obj.tag = true
				return []Value{ex.cint(0), IfaceV{}}
			}
			setBuf(append(append([]*Term{}, curB...), s.b...))
			return []Value{ex.cint(int64(len(s.b))), IfaceV{}}
		case "Write":
			b := termsOf(ex, args[1])
			setBuf(append(append([]*Term{}, curB...), b...))
			return []Value{ex.cint(int64(len(b))), IfaceV{}}
		case "WriteByte":
			setBuf(append(append([]*Term{}, curB...), args[1].(*Term)))
			return []Value{IfaceV{}}
		case "WriteRune":
			r := args[1].(*Term)
			if !r.IsConst() {
				ex.unsupported("Builder.WriteRune symbolic")
			}
			s := string(rune(r.SignedConst()))
			setBuf(append(append([]*Term{}, curB...), ex.bytesConst([]byte(s))...))
			return []Value{ex.cint(int64(len(s))), IfaceV{}}
		case "String":
			if opq {
				return []Value{StrV{opaque: true}}
			}
			return []Value{StrV{b: curB}}
		case "Len":
			if opq {
				ex.unsupported("len of opaque builder")
			}
			return []Value{ex.cint(int64(len(curB)))}
		case "Grow", "grow", "copyCheck":
			return zeroResults(ex, fn)
		case "Reset":
			p.obj.set(bufOff, SliceV{es: 1})
			p.obj.tag = nil
			return nil
		case "Cap":
			return []Value{ex.cint(int64(len(curB)))}
		}
		ex.unsupported("strings.Builder.%s", method)
		return nil
	}
}

// ---- sort.Slice: insertion sort driven by the real less closure ----

func stubSortSlice(ex *Exec, fn *ssa.Function, args []Value) []Value {
	s := args[0].(IfaceV).v.(SliceV)
	less := args[1]
	es := s.es
	getEl := func(i int) []Value {
		v := make([]Value, es)
		for k := 0; k < es; k++ {
			v[k] = s.obj.get(s.off + i*es + k)
		}
		return v
	}
	setEl := func(i int, v []Value) {
		for k := 0; k < es; k++ {
			s.obj.set(s.off+i*es+k, v[k])
		}
	}
	for i := 1; i < s.len; i++ {
		for j := i; j > 0; j-- {
			r := ex.callValue(less, []Value{ex.cint(int64(j)), ex.cint(int64(j - 1))}, nil)[0].(*Term)
			if !ex.branch(r) {
				break
			}
			a, b := getEl(j), getEl(j-1)
			setEl(j, b)
			setEl(j-1, a)
		}
	}
	return nil
}

// ---- reflect (struct field walk only) ----

type ReflectV struct {
	t        types.Type
	v        Value
	exported bool
}

func stubReflectValueOf(ex *Exec, fn *ssa.Function, args []Value) []Value {
	a := args[0].(IfaceV)
	return []Value{ReflectV{t: a.t, v: a.v, exported: true}}
}
func stubReflectNumField(ex *Exec, fn *ssa.Function, args []Value) []Value {
	r := args[0].(ReflectV)
	st, ok := r.t.Underlying().(*types.Struct)
	if !ok {
		ex.rtPanic("reflect: NumField of non-struct type", "")
	}
	return []Value{ex.cint(int64(st.NumFields()))}
}
func stubReflectField(ex *Exec, fn *ssa.Function, args []Value) []Value {
	r := args[0].(ReflectV)
	st := r.t.Underlying().(*types.Struct)
	i := int(ex.concretize(args[1].(*Term), 1100, "reflect field index"))
	if i < 0 || i >= st.NumFields() {
		ex.rtPanic("reflect: Field index out of range", "")
	}
	f := st.Field(i)
	return []Value{ReflectV{t: f.Type(), v: r.v.(StructV).f[i], exported: r.exported && f.Exported()}}
}
func stubReflectCanInterface(ex *Exec, fn *ssa.Function, args []Value) []Value {
	return []Value{ex.ts.Bool(args[0].(ReflectV).exported)}
}
func stubReflectInterface(ex *Exec, fn *ssa.Function, args []Value) []Value {
	r := args[0].(ReflectV)
	if !r.exported {
		ex.rtPanic("reflect.Value.Interface: cannot return value obtained from unexported field", "")
	}
	if _, isI := r.t.Underlying().(*types.Interface); isI {
		return []Value{r.v}
	}
	return []Value{IfaceV{t: r.t, v: r.v}}
}

// ---- file system (recorded, not executed) ----

func stubFS(op string) stubFn {
	return func(ex *Exec, fn *ssa.Function, args []Value) []Value {
		ex.fsLog = append(ex.fsLog, fsRec{Op: op, Path: args[0].(StrV)})
		return zeroResults(ex, fn)
	}
}
func stubOpenFile(ex *Exec, fn *ssa.Function, args []Value) []Value {
	ex.fsLog = append(ex.fsLog, fsRec{Op: "OpenFile", Path: args[0].(StrV)})
	return []Value{PtrV{}, IfaceV{}}
}
func stubFileWrite(ex *Exec, fn *ssa.Function, args []Value) []Value {
	return []Value{ex.cint(0), IfaceV{}}
}

// ---- GBK (ASCII-transparent model) ----

func stubGBK(decode bool) stubFn {
	return func(ex *Exec, fn *ssa.Function, args []Value) []Value {
		b := termsOf(ex, args[0])
		allConc := true
		for _, t := range b {
			if !t.IsConst() {
				allConc = false
			}
		}
		if allConc {
			raw := make([]byte, len(b))
			for i, t := range b {
				raw[i] = byte(t.k)
			}
			// concrete text: the repository's own function, compiled into this binary from /repo's
			// current tree (the check rebuilds the engine on every run), is called natively
			var out []byte
			if decode {
				out = repoutils.GBK2UTF8(raw)
			} else {
				out = repoutils.UTF82GBK(raw)
			}
			if out == nil {
				out = []byte{}
			}
			return []Value{ex.newByteSlice(ex.bytesConst(out), 0, "gbk")}
		}
		ascii := ex.ts.tt
		for _, t := range b {
			ascii = ex.ts.BAnd(ascii, ex.ts.Cmp(OpUlt, t, ex.ts.Const(8, 0x80)))
		}
		if !ex.branch(ascii) {
			ex.w.sh.noteOutside("non-ASCII GBK text")
			ex.end("assumed", "non-ASCII GBK text is outside the bound")
		}
		return []Value{ex.newByteSlice(b, 0, "gbk")}
	}
}

// IndexAny / ContainsAny with a concrete ASCII character set: first byte that is a member.
func anyOf(ex *Exec, args []Value) ([]*Term, func(i int) *Term) {
	hay := termsOf(ex, args[0])
	cs, ok := concreteStr(args[1].(StrV))
	if !ok {
		ex.unsupported("IndexAny with a symbolic character set")
	}
	for i := 0; i < len(cs); i++ {
		if cs[i] >= 0x80 {
			ex.unsupported("IndexAny with a non-ASCII character set")
		}
	}
	return hay, func(i int) *Term {
		r := ex.ts.ff
		for k := 0; k < len(cs); k++ {
			r = ex.ts.BOr(r, ex.ts.Eq(hay[i], ex.cbyte(cs[k])))
		}
		return r
	}
}

func stubIndexAny(ex *Exec, fn *ssa.Function, args []Value) []Value {
	hay, m := anyOf(ex, args)
	return []Value{indexOf(ex, hay, m, len(hay))}
}

func stubContainsAny(ex *Exec, fn *ssa.Function, args []Value) []Value {
	hay, m := anyOf(ex, args)
	r := ex.ts.ff
	for i := range hay {
		r = ex.ts.BOr(r, m(i))
	}
	return []Value{r}
}
