package main

import "go/types"

// deepEq mirrors reflect.DeepEqual on interpreter values and yields one boolean term.
func (ex *Exec) deepEq(a, b Value, t types.Type, depth int) *Term {
	ts := ex.ts
	if depth > 40 {
		ex.unsupported("vrt_DeepEqual: structure too deep")
	}
	switch u := t.Underlying().(type) {
	case *types.Basic:
		switch x := a.(type) {
		case *Term:
			return ts.Eq(x, b.(*Term))
		case StrV:
			return ex.strEq(x, b.(StrV))
		case FloatV:
			y := b.(FloatV)
			if x.known && y.known {
				return ts.Bool(x.f == y.f)
			}
			ex.unsupported("vrt_DeepEqual on unknown floats")
		case PtrV:
			y := b.(PtrV)
			return ts.Bool(x == y)
		}
	case *types.Pointer:
		x, y := a.(PtrV), b.(PtrV)
		if x.obj == nil || y.obj == nil {
			return ts.Bool(x.obj == nil && y.obj == nil)
		}
		if x == y {
			return ts.tt
		}
		return ex.deepEq(ex.loadVal(x.obj, x.off, u.Elem()), ex.loadVal(y.obj, y.off, u.Elem()), u.Elem(), depth+1)
	case *types.Struct:
		x, y := a.(StructV), b.(StructV)
		r := ts.tt
		for i := 0; i < u.NumFields(); i++ {
			r = ts.BAnd(r, ex.deepEq(x.f[i], y.f[i], u.Field(i).Type(), depth+1))
			if r.IsFalse() {
				return r
			}
		}
		return r
	case *types.Array:
		x, y := a.(ArrayV), b.(ArrayV)
		r := ts.tt
		for i := range x.e {
			r = ts.BAnd(r, ex.deepEq(x.e[i], y.e[i], u.Elem(), depth+1))
		}
		return r
	case *types.Slice:
		x, y := a.(SliceV), b.(SliceV)
		if (x.obj == nil) != (y.obj == nil) {
			return ts.ff
		}
		if x.len != y.len {
			return ts.ff
		}
		r := ts.tt
		for i := 0; i < x.len; i++ {
			r = ts.BAnd(r, ex.deepEq(ex.loadVal(x.obj, x.off+i*x.es, u.Elem()), ex.loadVal(y.obj, y.off+i*y.es, u.Elem()), u.Elem(), depth+1))
			if r.IsFalse() {
				return r
			}
		}
		return r
	case *types.Map:
		x, y := a.(MapV), b.(MapV)
		if (x.obj == nil) != (y.obj == nil) {
			return ts.ff
		}
		if x.obj == nil || x.obj == y.obj {
			return ts.tt
		}
		if ex.mapLen(x.obj) != ex.mapLen(y.obj) {
			return ts.ff
		}
		r := ts.tt
		for _, ea := range x.obj.entries {
			if ea.deleted {
				continue
			}
			found := ts.ff
			for _, eb := range y.obj.entries {
				if eb.deleted {
					continue
				}
				k := ex.valEq(ea.key, eb.key)
				if k.IsFalse() {
					continue
				}
				found = ts.BOr(found, ts.BAnd(k, ex.deepEq(ea.val, eb.val, u.Elem(), depth+1)))
			}
			r = ts.BAnd(r, found)
			if r.IsFalse() {
				return r
			}
		}
		return r
	case *types.Interface:
		x, y := a.(IfaceV), b.(IfaceV)
		if x.t == nil || y.t == nil {
			return ts.Bool(x.t == nil && y.t == nil)
		}
		if !types.Identical(x.t, y.t) {
			return ts.ff
		}
		if x.t == sentinelType {
			return ts.Bool(x.v.(PtrV) == y.v.(PtrV))
		}
		return ex.deepEq(x.v, y.v, x.t, depth+1)
	case *types.Signature:
		x, y := a.(FuncV), b.(FuncV)
		return ts.Bool(x.fn == nil && y.fn == nil)
	case *types.Chan:
		return ts.Bool(a.(ChanV) == b.(ChanV))
	}
	ex.unsupported("vrt_DeepEqual on %s", t)
	return nil
}
