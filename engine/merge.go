package main

// State merging by predicated execution: when an If on a symbolic condition starts a small acyclic
// region made only of side-effect-light instructions, both arms are executed under guards and
// joined with ite terms instead of forking the path. Semantics are unchanged; only the number of
// paths and solver calls shrinks. Any doubt (possible panic, non-scalar merge, solver-dependent
// branch) aborts the attempt, rolls the heap back and falls back to forking.

import (
	"go/token"
	"go/types"

	"golang.org/x/tools/go/ssa"
)

type mergeBail struct{ why string }

type regionInfo struct {
	join   *ssa.BasicBlock // nil = function exit (tail merge)
	order  []*ssa.BasicBlock
	inReg  map[*ssa.BasicBlock]bool
	tail   bool
}

type fnCFG struct {
	ipdom map[*ssa.BasicBlock]*ssa.BasicBlock // nil value = virtual exit
	has   map[*ssa.BasicBlock]bool
}

type undoRec struct {
	obj *Obj
	off int
	old Value
}

func (w *Worker) cfgOf(fn *ssa.Function) *fnCFG {
	if c, ok := w.cfgs[fn]; ok {
		return c
	}
	n := len(fn.Blocks)
	exit := n
	// pdom sets as bitsets over n+1 nodes
	words := (n + 1 + 63) / 64
	full := make([]uint64, words)
	for i := 0; i <= n; i++ {
		full[i/64] |= 1 << uint(i%64)
	}
	pd := make([][]uint64, n+1)
	for i := 0; i <= n; i++ {
		pd[i] = append([]uint64{}, full...)
	}
	pd[exit] = make([]uint64, words)
	pd[exit][exit/64] |= 1 << uint(exit%64)
	succs := func(b *ssa.BasicBlock) []int {
		if len(b.Succs) == 0 {
			return []int{exit}
		}
		r := make([]int, len(b.Succs))
		for i, s := range b.Succs {
			r[i] = s.Index
		}
		return r
	}
	changed := true
	for changed {
		changed = false
		for i := n - 1; i >= 0; i-- {
			b := fn.Blocks[i]
			nw := append([]uint64{}, full...)
			for _, s := range succs(b) {
				for k := range nw {
					nw[k] &= pd[s][k]
				}
			}
			nw[i/64] |= 1 << uint(i%64)
			for k := range nw {
				if nw[k] != pd[i][k] {
					changed = true
				}
			}
			pd[i] = nw
		}
	}
	count := func(s []uint64) int {
		c := 0
		for _, x := range s {
			for ; x != 0; x &= x - 1 {
				c++
			}
		}
		return c
	}
	c := &fnCFG{ipdom: map[*ssa.BasicBlock]*ssa.BasicBlock{}, has: map[*ssa.BasicBlock]bool{}}
	for i := 0; i < n; i++ {
		best, bestCount := -1, -1
		for j := 0; j <= n; j++ {
			if j == i || pd[i][j/64]&(1<<uint(j%64)) == 0 {
				continue
			}
			if k := count(pd[j]); k > bestCount {
				best, bestCount = j, k
			}
		}
		if best >= 0 {
			c.has[fn.Blocks[i]] = true
			if best == exit {
				c.ipdom[fn.Blocks[i]] = nil
			} else {
				c.ipdom[fn.Blocks[i]] = fn.Blocks[best]
			}
		}
	}
	w.cfgs[fn] = c
	return c
}

func instrMergeable(in ssa.Instruction) bool {
	switch i := in.(type) {
	case *ssa.Phi, *ssa.If, *ssa.Jump, *ssa.DebugRef, *ssa.FieldAddr, *ssa.Field, *ssa.Extract, *ssa.ChangeType,
		*ssa.IndexAddr, *ssa.Index, *ssa.Store, *ssa.Return:
		return true
	case *ssa.BinOp:
		return true
	case *ssa.UnOp:
		return i.Op != token.ARROW
	case *ssa.Convert:
		return isIntType(i.X.Type()) && isIntType(i.Type())
	case *ssa.Lookup:
		_, isMap := i.X.Type().Underlying().(*types.Map)
		return !isMap
	case *ssa.Alloc:
		return !i.Heap
	case *ssa.Call:
		// only len/cap builtins
		if b, ok := i.Call.Value.(*ssa.Builtin); ok {
			return b.Name() == "len" || b.Name() == "cap"
		}
		return false
	}
	return false
}

func (w *Worker) regionOf(fn *ssa.Function, b *ssa.BasicBlock) *regionInfo {
	if r, ok := w.regions[b]; ok {
		return r
	}
	var res *regionInfo
	defer func() { w.regions[b] = res }()
	cfg := w.cfgOf(fn)
	if !cfg.has[b] {
		return nil
	}
	join := cfg.ipdom[b]
	r := &regionInfo{join: join, inReg: map[*ssa.BasicBlock]bool{}, tail: join == nil}
	// DFS with cycle detection
	const (
		white = 0
		grey  = 1
		black = 2
	)
	color := map[*ssa.BasicBlock]int{}
	var post []*ssa.BasicBlock
	ok := true
	var dfs func(x *ssa.BasicBlock)
	dfs = func(x *ssa.BasicBlock) {
		if !ok {
			return
		}
		if x == b {
			ok = false // loops back to the branching block
			return
		}
		if x == join {
			return
		}
		switch color[x] {
		case grey:
			ok = false
			return
		case black:
			return
		}
		color[x] = grey
		if len(color) > 48 {
			ok = false
			return
		}
		for _, in := range x.Instrs {
			if !instrMergeable(in) {
				ok = false
				return
			}
			if _, isRet := in.(*ssa.Return); isRet && (!r.tail || fn.Recover != nil) {
				ok = false
				return
			}
		}
		if len(x.Succs) == 0 {
			if _, isRet := x.Instrs[len(x.Instrs)-1].(*ssa.Return); !isRet {
				ok = false // panic terminator
				return
			}
		}
		for _, s := range x.Succs {
			dfs(s)
		}
		color[x] = black
		post = append(post, x)
	}
	for _, s := range b.Succs {
		dfs(s)
	}
	if !ok || len(post) == 0 {
		return nil
	}
	for i := len(post) - 1; i >= 0; i-- {
		r.order = append(r.order, post[i])
		r.inReg[post[i]] = true
	}
	res = r
	return res
}

type edgeKey struct{ from, to *ssa.BasicBlock }

// tryMerge attempts predicated execution of the region that starts at the If terminating b.
// On success it returns the block to continue with (nil when the function has returned) and
// sets fr.skipPhis when the join block's phis have already been computed.
func (ex *Exec) tryMerge(fr *Frame, b *ssa.BasicBlock, c *Term) (next *ssa.BasicBlock, ok bool) {
	if ex.inMerge || ex.w.sh.noMerge {
		return nil, false
	}
	reg := ex.w.regionOf(fr.fn, b)
	if reg == nil {
		return nil, false
	}
	ts := ex.ts
	pcLen, decLen, altLen, spcLen := len(ex.pc), len(ex.decisions), len(ex.newAlts), len(ex.spc)
	var undo []undoRec
	ex.inMerge = true
	success := false
	defer func() {
		ex.inMerge = false
		if !success {
			if r := recover(); r != nil {
				if _, isBail := r.(mergeBail); !isBail {
					if _, isGP := r.(*goPanic); !isGP {
						panic(r)
					}
				}
			}
			for i := len(undo) - 1; i >= 0; i-- {
				undo[i].obj.set(undo[i].off, undo[i].old)
			}
			for _, t := range ex.pc[pcLen:] {
				delete(ex.pcSet, t)
			}
			ex.pc = ex.pc[:pcLen]
			ex.spc = ex.spc[:spcLen]
			ex.decisions = ex.decisions[:decLen]
			ex.newAlts = ex.newAlts[:altLen]
			next, ok = nil, false
		}
	}()
	edges := map[edgeKey]*Term{}
	edges[edgeKey{b, b.Succs[0]}] = c
	if b.Succs[1] == b.Succs[0] {
		edges[edgeKey{b, b.Succs[0]}] = ts.tt
	} else {
		edges[edgeKey{b, b.Succs[1]}] = ts.BNot(c)
	}
	type ret struct {
		g    *Term
		vals []Value
	}
	var rets []ret
	mergeVals := func(g *Term, a, old Value) Value {
		at, ok1 := a.(*Term)
		ot, ok2 := old.(*Term)
		if ok1 && ok2 && at.w == ot.w {
			if at.w == 64 && at != ot {
				// 64-bit values are lengths and indices: keep shapes concrete, fork instead
				panic(mergeBail{"64-bit merge"})
			}
			return ts.Ite(g, at, ot)
		}
		if sameValue(a, old) {
			return a
		}
		if as, ok := a.(StrV); ok {
			if os, ok := old.(StrV); ok && !as.opaque && !os.opaque && len(as.b) == len(os.b) {
				nb := make([]*Term, len(as.b))
				for k := range nb {
					nb[k] = ts.Ite(g, as.b[k], os.b[k])
				}
				return StrV{b: nb}
			}
		}
		panic(mergeBail{"non-scalar merge"})
	}
	phiAt := func(blk *ssa.BasicBlock) {
		for _, in := range blk.Instrs {
			phi, isPhi := in.(*ssa.Phi)
			if !isPhi {
				break
			}
			var val Value
			for pi, p := range blk.Preds {
				g, has := edges[edgeKey{p, blk}]
				if !has || g.IsFalse() {
					continue
				}
				v := ex.get(fr, phi.Edges[pi])
				if val == nil {
					val = v
				} else {
					val = mergeVals(g, v, val)
				}
			}
			if val == nil {
				panic(mergeBail{"phi without live edge"})
			}
			ex.pendingPhi = append(ex.pendingPhi, phiVal{phi, val})
		}
		for _, pv := range ex.pendingPhi {
			ex.set(fr, pv.phi, pv.val)
		}
		ex.pendingPhi = ex.pendingPhi[:0]
	}
	for _, blk := range reg.order {
		g := ts.ff
		for _, p := range blk.Preds {
			if eg, has := edges[edgeKey{p, blk}]; has {
				g = ts.BOr(g, eg)
			}
		}
		if g.IsFalse() {
			continue
		}
		phiAt(blk)
		for _, in := range blk.Instrs {
			ex.steps++
			switch i := in.(type) {
			case *ssa.Phi, *ssa.DebugRef:
			case *ssa.If:
				cond := ex.get(fr, i.Cond).(*Term)
				e0 := edgeKey{blk, blk.Succs[0]}
				e1 := edgeKey{blk, blk.Succs[1]}
				add := func(k edgeKey, t *Term) {
					if old, has := edges[k]; has {
						edges[k] = ts.BOr(old, t)
					} else {
						edges[k] = t
					}
				}
				add(e0, ts.BAnd(g, cond))
				add(e1, ts.BAnd(g, ts.BNot(cond)))
			case *ssa.Jump:
				k := edgeKey{blk, blk.Succs[0]}
				if old, has := edges[k]; has {
					edges[k] = ts.BOr(old, g)
				} else {
					edges[k] = g
				}
			case *ssa.Return:
				vals := make([]Value, len(i.Results))
				for k, r := range i.Results {
					vals[k] = ex.get(fr, r)
				}
				rets = append(rets, ret{g, vals})
			case *ssa.Store:
				p := ex.get(fr, i.Addr).(PtrV)
				if p.obj == nil {
					panic(mergeBail{"nil store"})
				}
				if ex.slots(i.Val.Type()) != 1 {
					panic(mergeBail{"aggregate store"})
				}
				old := p.obj.get(p.off)
				if old == nil {
					old = ex.zero(i.Val.Type())
				}
				nv := mergeVals(g, ex.get(fr, i.Val), old)
				undo = append(undo, undoRec{p.obj, p.off, old})
				p.obj.set(p.off, nv)
			default:
				ex.exec(fr, in)
			}
		}
	}
	if reg.tail {
		if len(rets) == 0 {
			panic(mergeBail{"no return reached"})
		}
		res := rets[len(rets)-1].vals
		for k := len(rets) - 2; k >= 0; k-- {
			nr := make([]Value, len(res))
			for j := range res {
				nr[j] = mergeVals(rets[k].g, rets[k].vals[j], res[j])
			}
			res = nr
		}
		fr.results = res
		success = true
		ex.merges++
		return nil, true
	}
	phiAt(reg.join)
	fr.skipPhis = true
	success = true
	ex.merges++
	return reg.join, true
}

type phiVal struct {
	phi *ssa.Phi
	val Value
}

func sameValue(a, b Value) bool {
	switch x := a.(type) {
	case *Term:
		y, ok := b.(*Term)
		return ok && x == y
	case PtrV:
		y, ok := b.(PtrV)
		return ok && x == y
	case SliceV:
		y, ok := b.(SliceV)
		return ok && x == y
	case MapV:
		y, ok := b.(MapV)
		return ok && x == y
	case ChanV:
		y, ok := b.(ChanV)
		return ok && x == y
	case StrV:
		y, ok := b.(StrV)
		if !ok || x.opaque || y.opaque || len(x.b) != len(y.b) {
			return false
		}
		for i := range x.b {
			if x.b[i] != y.b[i] {
				return false
			}
		}
		return true
	case IfaceV:
		y, ok := b.(IfaceV)
		if !ok {
			return false
		}
		if x.t == nil || y.t == nil {
			return x.t == nil && y.t == nil
		}
		return types.Identical(x.t, y.t) && sameValue(x.v, y.v)
	case FloatV:
		y, ok := b.(FloatV)
		return ok && x == y
	}
	return false
}
