package main

import (
	"fmt"
	"go/types"
	"os"
	"runtime/debug"

	"golang.org/x/tools/go/ssa"
)

// Value is one of: *Term (ints, bools), FloatV, PtrV, SliceV, StrV, IfaceV, MapV, ChanV, FuncV,
// StructV, ArrayV, TupleV, RangeIter.
type Value interface{}

type FloatV struct {
	f     float64
	known bool
}

type PtrV struct {
	obj *Obj
	off int
}

type SliceV struct {
	obj           *Obj
	off, len, cap int // off in slots; len/cap in elements
	es            int // slots per element
}

type StrV struct {
	b      []*Term
	opaque bool
}

type IfaceV struct {
	t types.Type // nil = nil interface
	v Value
}

type MapV struct{ obj *Obj }
type ChanV struct{ obj *Obj }

type FuncV struct {
	fn    *ssa.Function
	free  []Value
	bound Value // for bound method closures handled via ssa wrappers; unused
}

type StructV struct{ f []Value }
type ArrayV struct{ e []Value }
type TupleV []Value

// Obj is a heap object: a run of slots, or a map, or a channel.
type Obj struct {
	id     int
	n      int
	dense  []Value
	sparse map[int]Value
	zero   Value // default of a sparse object
	label  string

	// map
	isMap   bool
	entries []*mapEntry
	keyT    types.Type
	valT    types.Type

	// chan
	isChan bool
	buf    []Value
	capn   int
	closed bool
	elemT  types.Type
	sendq  []*sendItem

	// net stub / misc
	tag interface{}
}

type mapEntry struct {
	key     Value
	val     Value
	deleted bool
}

const sparseThreshold = 8192

func (ex *Exec) newObj(n int, label string) *Obj {
	ex.objSeq++
	o := &Obj{id: ex.objSeq, n: n, label: label}
	if n <= sparseThreshold {
		o.dense = make([]Value, n)
	} else {
		o.sparse = map[int]Value{}
	}
	return o
}

func (o *Obj) get(i int) Value {
	if i < 0 || i >= o.n {
		dbgStack()
		panic(fmt.Sprintf("internal: slot %d out of object %s size %d", i, o.label, o.n))
	}
	if o.dense != nil {
		return o.dense[i]
	}
	if v, ok := o.sparse[i]; ok {
		return v
	}
	return o.zero
}

func (o *Obj) set(i int, v Value) {
	if i < 0 || i >= o.n {
		dbgStack()
		panic(fmt.Sprintf("internal: slot %d out of object %s size %d", i, o.label, o.n))
	}
	if o.dense != nil {
		o.dense[i] = v
		return
	}
	o.sparse[i] = v
}

// ---- type layout ----

func (ex *Exec) slots(t types.Type) int {
	if n, ok := ex.slotCache[t]; ok {
		return n
	}
	var n int
	switch u := t.Underlying().(type) {
	case *types.Struct:
		for i := 0; i < u.NumFields(); i++ {
			n += ex.slots(u.Field(i).Type())
		}
	case *types.Array:
		n = int(u.Len()) * ex.slots(u.Elem())
	default:
		n = 1
	}
	ex.slotCache[t] = n
	return n
}

func (ex *Exec) fieldOffset(st *types.Struct, idx int) int {
	off := 0
	for i := 0; i < idx; i++ {
		off += ex.slots(st.Field(i).Type())
	}
	return off
}

func intWidth(b *types.Basic) (uint8, bool) {
	switch b.Kind() {
	case types.Bool, types.UntypedBool:
		return 0, false
	case types.Int8:
		return 8, true
	case types.Uint8:
		return 8, false
	case types.Int16:
		return 16, true
	case types.Uint16:
		return 16, false
	case types.Int32, types.UntypedRune:
		return 32, true
	case types.Uint32:
		return 32, false
	case types.Int64, types.Int, types.UntypedInt:
		return 64, true
	case types.Uint64, types.Uint, types.Uintptr:
		return 64, false
	}
	return 0, false
}

func isIntType(t types.Type) bool {
	b, ok := t.Underlying().(*types.Basic)
	return ok && b.Info()&types.IsInteger != 0
}
func isBoolType(t types.Type) bool {
	b, ok := t.Underlying().(*types.Basic)
	return ok && b.Info()&types.IsBoolean != 0
}
func isStringType(t types.Type) bool {
	b, ok := t.Underlying().(*types.Basic)
	return ok && b.Info()&types.IsString != 0
}
func isFloatType(t types.Type) bool {
	b, ok := t.Underlying().(*types.Basic)
	return ok && b.Info()&(types.IsFloat|types.IsComplex) != 0
}
func typeWidth(t types.Type) (uint8, bool) {
	b, ok := t.Underlying().(*types.Basic)
	if !ok {
		panic("typeWidth of non-basic " + t.String())
	}
	return intWidth(b)
}

// zero returns the zero Value of a type (aggregates as StructV/ArrayV).
func (ex *Exec) zero(t types.Type) Value {
	switch u := t.Underlying().(type) {
	case *types.Basic:
		switch {
		case u.Info()&types.IsBoolean != 0:
			return ex.ts.ff
		case u.Info()&types.IsInteger != 0:
			w, _ := intWidth(u)
			return ex.ts.Const(w, 0)
		case u.Info()&types.IsString != 0:
			return StrV{}
		case u.Info()&(types.IsFloat|types.IsComplex) != 0:
			return FloatV{0, true}
		case u.Kind() == types.UnsafePointer:
			return PtrV{}
		case u.Kind() == types.UntypedNil:
			return PtrV{}
		}
	case *types.Pointer:
		return PtrV{}
	case *types.Slice:
		return SliceV{es: ex.slots(u.Elem())}
	case *types.Interface:
		return IfaceV{}
	case *types.Map:
		return MapV{}
	case *types.Chan:
		return ChanV{}
	case *types.Signature:
		return FuncV{}
	case *types.Struct:
		f := make([]Value, u.NumFields())
		for i := range f {
			f[i] = ex.zero(u.Field(i).Type())
		}
		return StructV{f}
	case *types.Array:
		e := make([]Value, u.Len())
		for i := range e {
			e[i] = ex.zero(u.Elem())
		}
		return ArrayV{e}
	case *types.Tuple:
		tv := make(TupleV, u.Len())
		for i := range tv {
			tv[i] = ex.zero(u.At(i).Type())
		}
		return tv
	}
	panic("zero: unhandled type " + t.String())
}

// storeVal flattens v of type t into obj at off.
func (ex *Exec) storeVal(o *Obj, off int, t types.Type, v Value) {
	switch u := t.Underlying().(type) {
	case *types.Struct:
		sv, ok := v.(StructV)
		if !ok {
			panic(fmt.Sprintf("storeVal: expected struct %s, got %T", t, v))
		}
		for i := 0; i < u.NumFields(); i++ {
			ft := u.Field(i).Type()
			ex.storeVal(o, off, ft, sv.f[i])
			off += ex.slots(ft)
		}
	case *types.Array:
		av := v.(ArrayV)
		es := ex.slots(u.Elem())
		for i := 0; i < int(u.Len()); i++ {
			ex.storeVal(o, off+i*es, u.Elem(), av.e[i])
		}
	default:
		o.set(off, v)
	}
}

// loadVal reassembles a value of type t from obj at off.
func (ex *Exec) loadVal(o *Obj, off int, t types.Type) Value {
	switch u := t.Underlying().(type) {
	case *types.Struct:
		f := make([]Value, u.NumFields())
		for i := range f {
			ft := u.Field(i).Type()
			f[i] = ex.loadVal(o, off, ft)
			off += ex.slots(ft)
		}
		return StructV{f}
	case *types.Array:
		es := ex.slots(u.Elem())
		e := make([]Value, u.Len())
		for i := range e {
			e[i] = ex.loadVal(o, off+i*es, u.Elem())
		}
		return ArrayV{e}
	default:
		if off >= o.n && os.Getenv("VERIF_DEBUG") != "" {
			fmt.Fprintf(os.Stderr, "loadVal: type %s (%T) at %d of %s size %d\n", t, t.Underlying(), off, o.label, o.n)
		}
		v := o.get(off)
		if v == nil {
			// lazily zero
			v = ex.zero(t)
		}
		return v
	}
}

func (ex *Exec) allocObj(t types.Type, label string) *Obj {
	n := ex.slots(t)
	o := ex.newObj(n, label)
	if o.dense != nil {
		ex.storeVal(o, 0, t, ex.zero(t))
	} else {
		// huge array: must be array of single-slot elements
		if a, ok := t.Underlying().(*types.Array); ok && ex.slots(a.Elem()) == 1 {
			o.zero = ex.zero(a.Elem())
		} else {
			panic("huge non-scalar object " + t.String())
		}
	}
	return o
}

// makeSliceObj creates backing storage for n elements of elem type.
func (ex *Exec) makeSliceObj(elem types.Type, n int, label string) *Obj {
	es := ex.slots(elem)
	o := ex.newObj(n*es, label)
	if o.dense != nil {
		if es == 1 {
			z := ex.zero(elem)
			for i := range o.dense {
				o.dense[i] = z
			}
		} else {
			z := ex.zero(elem)
			for i := 0; i < n; i++ {
				ex.storeVal(o, i*es, elem, z)
			}
		}
	} else {
		if es != 1 {
			panic("huge slice of aggregates")
		}
		o.zero = ex.zero(elem)
	}
	return o
}

func (ex *Exec) cint(v int64) *Term      { return ex.ts.Const(64, uint64(v)) }
func (ex *Exec) cbyte(v byte) *Term      { return ex.ts.Const(8, uint64(v)) }
func (ex *Exec) strConst(s string) StrV  { return StrV{b: ex.bytesConst([]byte(s))} }
func (ex *Exec) bytesConst(b []byte) []*Term {
	r := make([]*Term, len(b))
	for i, c := range b {
		r[i] = ex.cbyte(c)
	}
	return r
}

// concreteStr returns the Go string if every byte is concrete.
func concreteStr(s StrV) (string, bool) {
	if s.opaque {
		return "", false
	}
	b := make([]byte, len(s.b))
	for i, t := range s.b {
		if !t.IsConst() {
			return "", false
		}
		b[i] = byte(t.k)
	}
	return string(b), true
}

func (ex *Exec) sliceBytes(s SliceV) []*Term {
	r := make([]*Term, s.len)
	for i := 0; i < s.len; i++ {
		v := s.obj.get(s.off + i)
		if v == nil {
			r[i] = ex.cbyte(0)
		} else {
			r[i] = v.(*Term)
		}
	}
	return r
}

func (ex *Exec) newByteSlice(b []*Term, extraCap int, label string) SliceV {
	o := ex.newObj(len(b)+extraCap, label)
	z := ex.cbyte(0)
	if o.dense != nil {
		for i := range o.dense {
			o.dense[i] = z
		}
	} else {
		o.zero = z
	}
	for i, t := range b {
		o.set(i, t)
	}
	return SliceV{obj: o, off: 0, len: len(b), cap: len(b) + extraCap, es: 1}
}

func dbgStack() {
	if os.Getenv("VERIF_DEBUG") != "" {
		os.Stderr.Write(debug.Stack())
	}
}
