#!/bin/bash
# seedtest.sh <seed-dir> <name> : confirm a seeded change independently, keep it under /verif/seeded/<name>,
# then run the property's quick check against it (applied to /repo, undone straight afterwards).
set -u
src=$1; name=$2
export GOFLAGS=-mod=mod GOPROXY=off GOSUMDB=off GOTOOLCHAIN=local
meta=$src/seed/meta.json
prop=$(python3 -c "import json;print(json.load(open('$meta'))['property'])")
copy_to=$(python3 -c "import json;print(json.load(open('$meta'))['demo']['copy_to'])")
demo=$(ls $src/seed/*_test.go | head -1)
wt=/tmp/sv_$name
rm -rf $wt; git -C /repo worktree prune; git -C /repo worktree add -q --detach $wt HEAD || exit 2
mod=$(echo $copy_to | cut -d/ -f1)
pkgdir=$(dirname $copy_to)
testname=$(grep -o 'func Test[A-Za-z0-9_]*' $demo | head -1 | sed 's/func //')
rel=${pkgdir#$mod}; rel=${rel#/}; [ -z "$rel" ] && rel=.
run_demo() { (cd $wt/$mod && timeout 300 go test -vet=off -count=1 -run "^${testname}" ./$rel/ 2>&1 | tail -5); }
cp $demo $wt/$copy_to
echo "== demo WITHOUT change"; run_demo > /tmp/sv_$name.without.txt; tail -2 /tmp/sv_$name.without.txt
without_ok=$(grep -c '^ok' /tmp/sv_$name.without.txt)
git -C $wt apply $src/seed/patch.diff || { echo "PATCH DOES NOT APPLY"; git -C /repo worktree remove --force $wt; exit 2; }
echo "== demo WITH change"; run_demo > /tmp/sv_$name.with.txt; tail -2 /tmp/sv_$name.with.txt
with_fail=$(grep -c 'FAIL' /tmp/sv_$name.with.txt)
rm $wt/$copy_to
echo "== suite WITH change"
suite_ok=1
for m in shared protocol service attachment terminal; do (cd $wt/$m && go test -vet=off -count=1 ./... 2>&1 | grep -v "no test files") > /tmp/sv_$name.suite.$m.txt; if grep -q FAIL /tmp/sv_$name.suite.$m.txt; then suite_ok=0; fi; done
echo "without_ok=$without_ok with_fail=$with_fail suite_ok=$suite_ok"
git -C /repo worktree remove --force $wt
if [ "$without_ok" -ge 1 ] && [ "$with_fail" -ge 1 ] && [ "$suite_ok" = 1 ]; then
  mkdir -p /verif/seeded/$name
  cp $src/seed/patch.diff /verif/seeded/$name/patch.diff
  cp $demo /verif/seeded/$name/$(basename $demo)
  cp $meta /verif/seeded/$name/agent_meta.json
  echo "CONFIRMED $name ($prop)"
else
  echo "NOT CONFIRMED $name"; exit 3
fi
# run the check against the change
git -C /repo diff --quiet || { echo "/repo dirty, not applying"; exit 4; }
git -C /repo apply /verif/seeded/$name/patch.diff
(cd /verif && timeout 1500 ./check $prop quick > /tmp/sv_$name.check.txt 2>&1 < /dev/null; echo "exit=$?" >> /tmp/sv_$name.check.txt)
git -C /repo checkout -- .
grep -a "^VIOLATION\|^  harness=\|^exit=\|^INCONCLUSIVE\|^OK" /tmp/sv_$name.check.txt | cut -c1-220 | head -8
