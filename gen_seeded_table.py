#!/usr/bin/env python3
"""Regenerates DESIGN.md section 10.6 (between the SEEDED-TABLE markers) from seeded/*/meta.json."""
import json, glob, os, re
rows, ext = [], []
n = first = after = missed = 0
for d in sorted(glob.glob('/verif/seeded/*/')):
    name = os.path.basename(d.rstrip('/'))
    m = json.load(open(d + 'meta.json'))
    c = m['caught']
    n += 1
    if c.startswith('first'):
        first += 1; res = 'caught (checks as they stood)'
    elif c.startswith('after strengthening'):
        after += 1; res = 'caught after extending the check'
        ext.append('* %s: %s' % (name, c.split(':', 1)[1].strip()))
    else:
        missed += 1
        res = '**missed** - ' + c.split(':')[0].replace('MISSED - ', '')
        ext.append('* %s: %s' % (name, c))
    rows.append('| %s | %s | %s |' % (name, m['breaks'][:260].replace('|', '/').replace('\n', ' '), res))
out = []
out.append('%d changes, each written by an independent sub-agent that saw only the property text' % n)
out.append('(later rounds: plus a one-line summary of the earlier changes, to avoid duplicates) and its own scratch')
out.append('worktree. Each keeps the five-module suite green and comes with a demonstration test that fails with')
out.append('the change and passes without it; I re-confirmed all three facts in a fresh worktree (`seedtest.sh`)')
out.append('before keeping the change under `/verif/seeded/<name>/` (patch.diff, demonstration, meta.json).')
out.append('Procedure per change: `git -C /repo apply patch.diff; ./check <id> quick; git -C /repo checkout -- .`.')
out.append('Result: %d caught (%d by the checks as they stood, %d after the check was extended - the extension' % (first + after, first, after))
out.append('is named below), %d missed, each outside a stated bound or outside the claim.' % missed)
out.append('')
out.append('| name | seeded change | result |')
out.append('|---|---|---|')
out += rows
out.append('')
out.append('Extensions made because a seeded change was missed or would have been missed (checks were only ever')
out.append('made more complete, never loosened):')
out.append('')
out += ext
s = open('/verif/DESIGN.md').read()
b, e = '<!-- SEEDED-TABLE-BEGIN -->', '<!-- SEEDED-TABLE-END -->'
if b not in s:
    raise SystemExit('markers missing')
s = s[:s.index(b) + len(b)] + '\n' + '\n'.join(out) + '\n' + s[s.index(e):]
open('/verif/DESIGN.md', 'w').write(s)
print(n, first, after, missed)
